//! Bodies of the two libFuzzer targets (the fuzz crate only wraps them in `fuzz_target!`), so that the quick tier can
//! replay the committed seed corpus and every saved artifact through exactly the same code in the ordinary build.

use crate::imp::{self, Out};
use crate::model::{self, Res};
use arbitrary::Unstructured;
use serde_json::{json, Map, Value};

/// `fz_total`: bytes -> "rule text \n data text" -> serde_json::from_str x2 -> apply.  The literal text boundary of C01.
pub fn total(bytes: &[u8]) -> Result<&'static str, String> {
    let text = match std::str::from_utf8(bytes) {
        Ok(t) => t,
        Err(_) => return Ok("not utf-8"),
    };
    let (rule_text, data_text) = match text.split_once('\n') {
        Some(x) => x,
        None => (text, "null"),
    };
    let rule: Value = match serde_json::from_str(rule_text) {
        Ok(v) => v,
        Err(_) => return Ok("rule text is not JSON"),
    };
    let data: Value = match serde_json::from_str(data_text) {
        Ok(v) => v,
        Err(_) => return Ok("data text is not JSON"),
    };
    // inherent cost is not a hang: the model's work budget decides what is evaluated (DESIGN 2.2.1)
    let (m, _) = model::eval(&rule, &data);
    if let Res::Unspec("over_budget") = m {
        return Ok("over budget");
    }
    match imp::apply(&rule, &data) {
        Out::Panic(msg) => Err(format!("PANIC: {} -- rule text {:?} data text {:?}", msg, rule_text, data_text)),
        Out::Ok(v) => {
            let t = v.to_string();
            match serde_json::from_str::<Value>(&t) {
                Ok(_) => Ok("value"),
                Err(e) if e.to_string().contains("recursion limit") => Ok("value"),
                Err(e) => Err(format!("the result does not serialise to valid JSON ({}): {}", e, t)),
            }
        }
        Out::Err(_) => Ok("error"),
    }
}

const INTS: &[i64] = &[0, 1, -1, 2, 3, 10, -10, i64::MIN, i64::MIN + 1, i64::MAX, 2147483648, -2147483649, 9007199254740993, 4294967296];
const FLOATS: &[f64] = &[0.5, -0.0, 1.5, 1e21, 1e-7, 5e-324, 1e308, 1.7e308, -1e104, 1e19, 9223372036854775808.0];
const STRS: &[&str] = &["", "a", "b", "0", "1", " 1 ", "12px", "0x10", "1e", "inf", "Infinity", "héllo", "日本語", "a😀b", "a.b", "x\\y", "1,2", "[object Object]", "secret", "-1", "b.0"];
const KEYS: &[&str] = &["a", "b", "c", "", "0", "1", "a.b", "xs", "secret", "current", "accumulator", "é"];
const OPS: &[&str] = &[
    "==", "!=", "===", "!==", "!", "!!", "<", "<=", ">", ">=", "+", "-", "*", "/", "%", "max", "min", "merge", "in", "cat", "substr", "log", "var", "missing", "missing_some", "if", "?:", "or", "and", "map", "filter",
    "reduce", "all", "some", "none",
];

fn pick<'a, T>(u: &mut Unstructured, xs: &'a [T]) -> &'a T {
    let i = u.int_in_range(0..=(xs.len() - 1)).unwrap_or(0);
    &xs[i]
}

fn scalar(u: &mut Unstructured) -> Value {
    match u.int_in_range(0u8..=9).unwrap_or(0) {
        0 => Value::Null,
        1 => json!(true),
        2 => json!(false),
        3 | 4 => json!(*pick(u, INTS)),
        5 => serde_json::Number::from_f64(*pick(u, FLOATS)).map(Value::Number).unwrap_or(Value::Null),
        6 => json!(u.arbitrary::<i64>().unwrap_or(0)),
        7 => json!(u.arbitrary::<u64>().unwrap_or(0)),
        _ => json!(*pick(u, STRS)),
    }
}

fn value(u: &mut Unstructured, depth: u32) -> Value {
    if depth == 0 {
        return scalar(u);
    }
    match u.int_in_range(0u8..=9).unwrap_or(0) {
        0 | 1 => {
            let n = u.int_in_range(0usize..=3).unwrap_or(0);
            Value::Array((0..n).map(|_| value(u, depth - 1)).collect())
        }
        2 => {
            let n = u.int_in_range(0usize..=3).unwrap_or(0);
            let mut m = Map::new();
            for _ in 0..n {
                let k = pick(u, KEYS).to_string();
                m.insert(k, value(u, depth - 1));
            }
            Value::Object(m)
        }
        3 => match u.int_in_range(0u8..=3).unwrap_or(0) {
            0 => json!({"var": "secret"}),
            1 => json!({"+": ["x"]}),
            2 => json!({"log": "LEAK"}),
            _ => json!({"==": [1]}),
        },
        _ => scalar(u),
    }
}

fn rule(u: &mut Unstructured, depth: u32) -> Value {
    if depth == 0 || u.ratio(1u8, 4u8).unwrap_or(true) {
        return match u.int_in_range(0u8..=5).unwrap_or(0) {
            0 | 1 => json!({"var": *pick(u, KEYS)}),
            2 => json!({"var": [*pick(u, KEYS), "dflt"]}),
            _ => value(u, 1),
        };
    }
    let op = *pick(u, OPS);
    let (lo, hi) = model::eval::op_info(op).map(|x| (x.2, x.3)).unwrap_or((0, 3));
    let n = if u.ratio(1u8, 20u8).unwrap_or(false) { u.int_in_range(0usize..=5).unwrap_or(0) } else { lo + u.int_in_range(0usize..=(hi.min(lo + 3) - lo)).unwrap_or(0) };
    let args: Vec<Value> = (0..n).map(|_| rule(u, depth - 1)).collect();
    let mut m = Map::new();
    if n == 1 && u.ratio(1u8, 4u8).unwrap_or(false) && !args[0].is_array() {
        m.insert(op.to_string(), args[0].clone());
    } else {
        m.insert(op.to_string(), Value::Array(args));
    }
    Value::Object(m)
}

pub fn decode(bytes: &[u8]) -> (Value, Value) {
    let mut u = Unstructured::new(bytes);
    let r = rule(&mut u, 4);
    let d = value(&mut u, 3);
    (r, d)
}

/// `fz_diff`: bytes -> arbitrary::Unstructured -> (rule, data) over the same operator tables and value corpus as
/// the proptest grammars -> implementation vs reference model, with the semantic oracle inside the target.
pub fn diff(bytes: &[u8]) -> Result<&'static str, String> {
    let (r, d) = decode(bytes);
    let (m, ctx) = model::eval(&r, &d);
    if let Res::Unspec("over_budget") = m {
        return Ok("over budget");
    }
    let out = imp::apply(&r, &d);
    match (&m, &out) {
        (_, Out::Panic(msg)) => Err(format!("PANIC: {} -- rule {} data {}", msg, r, d)),
        (Res::Unspec(_), _) => Ok("unspecified"),
        (Res::Err, Out::Ok(v)) => Err(format!("expected an error, got {} -- rule {} data {}", v, r, d)),
        (Res::Err, _) => Ok("error"),
        (Res::Ok(e), Out::Ok(v)) => {
            if model::values_match(e, v) {
                let _ = ctx;
                Ok("value")
            } else {
                Err(format!("expected {} got {} -- rule {} data {}", e, v, r, d))
            }
        }
        (Res::Ok(e), Out::Err(msg)) => Err(format!("expected {} got Err({}) -- rule {} data {}", e, msg.chars().take(120).collect::<String>(), r, d)),
    }
}

// ------------------------------------------------------------------------------------------------ operator-family targets
//
// Text-shaped inputs, so that libFuzzer's byte mutations, compare tracing and dictionary act directly on the operand
// strings: line 0 selects the operator (first byte) and the operand route (second byte), every further line is one
// operand - the JSON value it spells if it parses as JSON, the raw line as a string otherwise (`12px`, ` 0x1F `).

#[derive(Clone, Copy, PartialEq, Debug)]
pub enum Family {
    Eq,
    Seq,
    Rel,
    Arith,
    Coll,
    Str,
    Path,
    Missing,
}

pub const FAMILY_TARGETS: &[&str] = &["fz_eq", "fz_seq", "fz_rel", "fz_arith", "fz_coll", "fz_str", "fz_path", "fz_missing"];

pub fn family_of(target: &str) -> Option<Family> {
    Some(match target {
        "fz_eq" => Family::Eq,
        "fz_seq" => Family::Seq,
        "fz_rel" => Family::Rel,
        "fz_arith" => Family::Arith,
        "fz_coll" => Family::Coll,
        "fz_str" => Family::Str,
        "fz_path" => Family::Path,
        "fz_missing" => Family::Missing,
        _ => return None,
    })
}

fn family_ops(f: Family) -> &'static [&'static str] {
    match f {
        Family::Eq => &["==", "!="],
        Family::Seq => &["===", "!=="],
        Family::Rel => &["<", "<=", ">", ">="],
        Family::Arith => &["+", "-", "*", "/", "%", "min", "max"],
        Family::Coll => &["in", "merge"],
        Family::Str => &["cat", "substr"],
        Family::Path => &["var"],
        Family::Missing => &["missing", "missing_some"],
    }
}

fn operand_of_line(line: &str) -> Value {
    match serde_json::from_str::<Value>(line) {
        Ok(v) => v,
        Err(_) => Value::String(line.to_string()),
    }
}

const DEFAULT_DOC: &str = r#"{"a":{"b":[10,{"c":"héllo"},null],"":7,"1":"one"},"0":"zero","x.y":1,"s":"a😀b","n":null,"e":"","l":[[1,2],[3]]}"#;

/// bytes -> (rule, data) for one operator family; None when the input is not text or has no operand
pub fn decode_family(f: Family, bytes: &[u8]) -> Option<(Value, Value)> {
    let text = std::str::from_utf8(bytes).ok()?;
    let mut lines = text.split('\n');
    let head = lines.next()?.as_bytes();
    let ops = family_ops(f);
    let op = ops[*head.first()? as usize % ops.len()];
    let route = head.get(1).copied().unwrap_or(0);
    let mut operands: Vec<Value> = lines.take(6).map(operand_of_line).collect();
    if f == Family::Path || f == Family::Missing {
        // first operand line is the data document
        let data = if operands.is_empty() { Value::Null } else { operands.remove(0) };
        let data = if route & 2 != 0 { serde_json::from_str(DEFAULT_DOC).unwrap_or(Value::Null) } else { data };
        let args: Vec<Value> = if route & 1 != 0 {
            // operands computed by `cat` / `merge` so that op-shaped values stay inert and keys are produced at run time
            operands.iter().map(|v| if v.is_string() { json!({"cat": [v.clone()]}) } else if model::eval::contains_op_shaped(v) { Value::Null } else { v.clone() }).collect()
        } else {
            operands.iter().map(|v| if model::eval::contains_op_shaped(v) { Value::Null } else { v.clone() }).collect()
        };
        let mut m = Map::new();
        if args.len() == 1 && route & 4 != 0 && !args[0].is_array() {
            m.insert(op.to_string(), args[0].clone());
        } else {
            m.insert(op.to_string(), Value::Array(args));
        }
        return Some((Value::Object(m), data));
    }
    if operands.is_empty() {
        return None;
    }
    let mut data = Map::new();
    let mut args = vec![];
    for (i, v) in operands.into_iter().enumerate() {
        if route & 1 != 0 || model::eval::contains_op_shaped(&v) {
            let k = format!("k{}", i);
            args.push(json!({"var": k.clone()}));
            data.insert(k, v);
        } else {
            args.push(v);
        }
    }
    let mut m = Map::new();
    if args.len() == 1 && route & 4 != 0 && !args[0].is_array() {
        m.insert(op.to_string(), args[0].clone());
    } else {
        m.insert(op.to_string(), Value::Array(args));
    }
    Some((Value::Object(m), Value::Object(data)))
}

/// the family targets: implementation vs reference model on one operator application with fuzzer-written operands
pub fn family(f: Family, bytes: &[u8]) -> Result<&'static str, String> {
    let (r, d) = match decode_family(f, bytes) {
        Some(x) => x,
        None => return Ok("not decodable"),
    };
    let (m, _ctx) = model::eval(&r, &d);
    if let Res::Unspec("over_budget") = m {
        return Ok("over budget");
    }
    let out = imp::apply(&r, &d);
    match (&m, &out) {
        (_, Out::Panic(msg)) => Err(format!("PANIC: {} -- rule {} data {}", msg, r, d)),
        (Res::Unspec(_), _) => Ok("unspecified"),
        (Res::Err, Out::Ok(v)) => Err(format!("expected an error, got {} -- rule {} data {}", v, r, d)),
        (Res::Err, _) => Ok("error"),
        (Res::Ok(e), Out::Ok(v)) => {
            if model::values_match(e, v) {
                Ok("value")
            } else {
                Err(format!("expected {} got {} -- rule {} data {}", e, v, r, d))
            }
        }
        (Res::Ok(e), Out::Err(msg)) => Err(format!("expected {} got Err({}) -- rule {} data {}", e, msg.chars().take(120).collect::<String>(), r, d)),
    }
}
