//! External legs (Python) spawned by the orchestrator next to the Rust workers.

use std::path::Path;
use std::process::{Child, Command, Stdio};

pub fn spawn_external(prop_id: &str, tier: &str, seed: u64, root: &Path, out_dir: &Path, regress: &Path) -> Vec<(String, Child)> {
    let mut v = vec![];
    if prop_id == "C19" || prop_id == "C01" {
        let script = root.join("py").join("check_py.py");
        let py = std::env::var("JLV_PYTHON").unwrap_or_else(|_| "python3-vt".to_string());
        if script.exists() {
            for pkg in ["dev", "release"] {
                let tag = format!("py-{}", pkg);
                let child = Command::new(&py)
                    .arg(&script)
                    .args(["--prop", prop_id, "--tier", tier, "--seed", &seed.to_string(), "--pkg", pkg])
                    .args(["--out", &out_dir.join(format!("{}.json", tag)).to_string_lossy()])
                    .args(["--regress-file", &regress.to_string_lossy()])
                    .env("RUST_BACKTRACE", "0")
                    .env("JLV_ROOT", root)
                    .stdin(Stdio::null())
                    .stdout(Stdio::null())
                    .stderr(Stdio::inherit())
                    .spawn();
                match child {
                    Ok(ch) => v.push((format!("external/{}", tag), ch)),
                    Err(e) => eprintln!("cannot spawn the python leg: {}", e),
                }
            }
        }
    }
    // coverage-guided campaign (thorough tier only)
    let target = match (tier, prop_id) {
        ("thorough", "C01") => Some("fz_total"),
        ("thorough", "C04") => Some("fz_diff"),
        ("thorough", "C07") => Some("fz_eq"),
        ("thorough", "C08") => Some("fz_seq"),
        ("thorough", "C09") => Some("fz_rel"),
        ("thorough", "C10") => Some("fz_arith"),
        ("thorough", "C11") => Some("fz_path"),
        ("thorough", "C12") => Some("fz_missing"),
        ("thorough", "C15") => Some("fz_coll"),
        ("thorough", "C16") => Some("fz_str"),
        _ => None,
    };
    if let Some(target) = target {
        let script = root.join("tools").join("fuzz_leg.py");
        let py = std::env::var("JLV_PYTHON").unwrap_or_else(|_| "python3".to_string());
        let tag = format!("fuzz-{}", target);
        let child = Command::new(&py)
            .arg(&script)
            .args(["--target", target, "--seed", &seed.to_string()])
            .args(["--out", &out_dir.join(format!("{}.json", tag)).to_string_lossy()])
            .env("RUST_BACKTRACE", "0")
            .env("JLV_ROOT", root)
            .stdin(Stdio::null())
            .stdout(Stdio::null())
            .stderr(Stdio::inherit())
            .spawn();
        match child {
            Ok(ch) => v.push((format!("external/{}", tag), ch)),
            Err(e) => eprintln!("cannot spawn the fuzz leg: {}", e),
        }
    }
    v
}
