//! Observe the only side effect of the library (`println!` in `log`) without a source hook:
//! fd 1 of the worker process is redirected onto a memfd once; each observation reads what was appended.

use std::io::Write;
use std::sync::atomic::{AtomicI32, Ordering};
use std::sync::Mutex;

static MEMFD: AtomicI32 = AtomicI32::new(-1);
static ERRFD: AtomicI32 = AtomicI32::new(-1);
static SAVED_STDERR: AtomicI32 = AtomicI32::new(-1);
static LOCK: Mutex<()> = Mutex::new(());

/// Redirect fd 1 (and, if `also_stderr`, fd 2) onto memfds.  Idempotent.  After this call nothing the harness
/// itself reports may go through stdout; use `diag` (the saved stderr).
pub fn install(also_stderr: bool) {
    if MEMFD.load(Ordering::SeqCst) >= 0 {
        return;
    }
    unsafe {
        let name = b"jlverif-stdout\0";
        let fd = libc::memfd_create(name.as_ptr() as *const libc::c_char, 0);
        assert!(fd >= 0, "memfd_create failed");
        let _ = std::io::stdout().flush();
        assert!(libc::dup2(fd, 1) >= 0);
        MEMFD.store(fd, Ordering::SeqCst);
        if also_stderr {
            let saved = libc::dup(2);
            SAVED_STDERR.store(saved, Ordering::SeqCst);
            let name2 = b"jlverif-stderr\0";
            let fd2 = libc::memfd_create(name2.as_ptr() as *const libc::c_char, 0);
            assert!(fd2 >= 0);
            assert!(libc::dup2(fd2, 2) >= 0);
            ERRFD.store(fd2, Ordering::SeqCst);
        }
    }
}

pub fn installed() -> bool {
    MEMFD.load(Ordering::SeqCst) >= 0
}

/// Write a diagnostic line to the real stderr even when fd 2 is captured.
pub fn diag(msg: &str) {
    let saved = SAVED_STDERR.load(Ordering::SeqCst);
    let fd = if saved >= 0 { saved } else { 2 };
    let line = format!("{}\n", msg);
    unsafe {
        libc::write(fd, line.as_ptr() as *const libc::c_void, line.len());
    }
}

fn size_of(fd: i32) -> i64 {
    unsafe {
        let mut st: libc::stat = std::mem::zeroed();
        if libc::fstat(fd, &mut st) != 0 {
            return 0;
        }
        st.st_size as i64
    }
}

fn read_range(fd: i32, from: i64, to: i64) -> Vec<u8> {
    let mut buf = vec![0u8; (to - from).max(0) as usize];
    let mut done = 0usize;
    while done < buf.len() {
        let n = unsafe { libc::pread(fd, buf[done..].as_mut_ptr() as *mut libc::c_void, buf.len() - done, from + done as i64) };
        if n <= 0 {
            break;
        }
        done += n as usize;
    }
    buf.truncate(done);
    buf
}

fn reset(fd: i32) {
    unsafe {
        libc::ftruncate(fd, 0);
        libc::lseek(fd, 0, libc::SEEK_SET);
    }
}

/// Run `f` and return what it wrote to stdout and stderr (empty when not installed).
pub fn observe<T>(f: impl FnOnce() -> T) -> (T, Vec<u8>, Vec<u8>) {
    let fd = MEMFD.load(Ordering::SeqCst);
    if fd < 0 {
        return (f(), Vec::new(), Vec::new());
    }
    let _g = LOCK.lock().unwrap_or_else(|e| e.into_inner());
    let efd = ERRFD.load(Ordering::SeqCst);
    let _ = std::io::stdout().flush();
    let start = size_of(fd);
    let estart = if efd >= 0 { size_of(efd) } else { 0 };
    let out = f();
    let _ = std::io::stdout().flush();
    let _ = std::io::stderr().flush();
    let end = size_of(fd);
    let bytes = read_range(fd, start, end);
    let ebytes = if efd >= 0 {
        let eend = size_of(efd);
        read_range(efd, estart, eend)
    } else {
        Vec::new()
    };
    if end > (1 << 20) {
        reset(fd);
    }
    if efd >= 0 && size_of(efd) > (1 << 20) {
        reset(efd);
    }
    (out, bytes, ebytes)
}

/// Split captured stdout into lines; the flag is false when the capture does not end with a newline
/// (a torn or partial line).
pub fn lines(bytes: &[u8]) -> (Vec<String>, bool) {
    if bytes.is_empty() {
        return (Vec::new(), true);
    }
    let text = String::from_utf8_lossy(bytes).to_string();
    let complete = text.ends_with('\n');
    let mut v: Vec<String> = text.split('\n').map(|s| s.to_string()).collect();
    if complete {
        v.pop();
    }
    (v, complete)
}
