//! Seeded proptest driver, worker fan-out, shrinking -> replay files, evidence (DESIGN.md 2.1).

use proptest::strategy::{BoxedStrategy, Strategy, ValueTree};
use proptest::test_runner::{Config, RngAlgorithm, TestCaseError, TestError, TestRng, TestRunner};
use serde_json::{json, Map, Value};
use std::cell::{Cell, RefCell};
use std::collections::{BTreeMap, HashSet};
use std::io::Write;
use std::path::{Path, PathBuf};
use std::sync::atomic::{AtomicBool, AtomicU64, Ordering};
use std::sync::Mutex;
use std::time::{Duration, Instant};

/// What a check observed about one case.
#[derive(Default, Debug)]
pub struct Obs {
    pub nontrivial: bool,
    pub classes: Vec<String>,
    pub unspec: Vec<&'static str>,
    pub evals: u32,
}
impl Obs {
    pub fn class(&mut self, c: &str) {
        self.classes.push(c.to_string());
    }
    pub fn nt(&mut self, c: &str) {
        self.nontrivial = true;
        self.classes.push(c.to_string());
    }
    pub fn skip(&mut self, zone: &'static str) {
        self.unspec.push(zone);
    }
}

pub type CheckFn = fn(&Value, &mut Obs) -> Result<(), String>;

pub struct Sub {
    pub name: &'static str,
    /// generator and oracle in words (goes into the evidence `rule`)
    pub about: &'static str,
    /// what makes a case non-trivial
    pub nontrivial: &'static str,
    pub strategy: Option<fn() -> BoxedStrategy<Value>>,
    /// enumerated cases, always run completely (split over the workers)
    pub fixed: Option<fn() -> Vec<Value>>,
    /// true when `fixed` enumerates a finite space completely
    pub fixed_exhaustive: bool,
    pub check: CheckFn,
    /// total generated cases (all workers together)
    pub quick: u64,
    pub thorough: u64,
    /// run each case in a fresh thread with a 2 MiB stack (deep documents)
    pub small_stack: bool,
}

pub struct Property {
    pub id: &'static str,
    pub subs: Vec<Sub>,
    pub assumptions: Vec<&'static str>,
}

// ------------------------------------------------------------------------------------------------ seeds / hashing

pub fn splitmix(mut x: u64) -> u64 {
    x = x.wrapping_add(0x9E3779B97F4A7C15);
    let mut z = x;
    z = (z ^ (z >> 30)).wrapping_mul(0xBF58476D1CE4E5B9);
    z = (z ^ (z >> 27)).wrapping_mul(0x94D049BB133111EB);
    z ^ (z >> 31)
}

pub fn fnv(s: &str) -> u64 {
    let mut h: u64 = 0xcbf29ce484222325;
    for b in s.as_bytes() {
        h ^= *b as u64;
        h = h.wrapping_mul(0x100000001b3);
    }
    h
}

fn derive_seed(seed: u64, prop: &str, sub: &str, worker: u64, profile: &str) -> [u8; 32] {
    let mut s = splitmix(seed ^ fnv(prop));
    s = splitmix(s ^ fnv(sub));
    s = splitmix(s ^ worker.wrapping_mul(0x9E37));
    s = splitmix(s ^ fnv(profile));
    let mut out = [0u8; 32];
    for i in 0..4 {
        s = splitmix(s);
        out[i * 8..i * 8 + 8].copy_from_slice(&s.to_le_bytes());
    }
    out
}

// ------------------------------------------------------------------------------------------------ known findings

#[derive(Debug, Clone)]
pub struct Known {
    pub property: String,
    pub status: String,
    pub sub: String,
    pub msg_contains: String,
    pub case_contains: String,
    pub what: String,
}

pub fn load_known(verif_root: &Path) -> Vec<Known> {
    let p = verif_root.join("known_findings.json");
    let text = match std::fs::read_to_string(&p) {
        Ok(t) => t,
        Err(_) => return vec![],
    };
    let v: Value = match serde_json::from_str(&text) {
        Ok(v) => v,
        Err(_) => return vec![],
    };
    let mut out = vec![];
    if let Some(arr) = v.get("findings").and_then(|f| f.as_array()) {
        for f in arr {
            let g = |k: &str| f.get(k).and_then(|x| x.as_str()).unwrap_or("").to_string();
            let m = f.get("match").cloned().unwrap_or(json!({}));
            let mg = |k: &str| m.get(k).and_then(|x| x.as_str()).unwrap_or("").to_string();
            out.push(Known {
                property: g("property"),
                status: g("status"),
                sub: mg("sub"),
                msg_contains: mg("msg_contains"),
                case_contains: mg("case_contains"),
                what: g("what"),
            });
        }
    }
    out
}

fn known_match<'a>(known: &'a [Known], prop: &str, sub: &str, case_text: &str, msg: &str) -> Option<&'a Known> {
    known.iter().find(|k| {
        k.status == "open"
            && k.property == prop
            && (k.sub.is_empty() || k.sub == sub)
            && !k.msg_contains.is_empty()
            && msg.contains(&k.msg_contains)
            && (k.case_contains.is_empty() || case_text.contains(&k.case_contains))
    })
}

// ------------------------------------------------------------------------------------------------ worker

#[derive(Default)]
struct SubStats {
    cases: u64,
    evals: u64,
    nontrivial: u64,
    hashes: Vec<u64>,
    classes: BTreeMap<String, u64>,
    unspec: BTreeMap<String, u64>,
    known: BTreeMap<String, u64>,
    samples: Vec<Value>,
    sample_classes: BTreeMap<String, u32>,
    violations: Vec<Value>,
    fixed_cases: u64,
}

impl SubStats {
    fn record(&mut self, case: &Value, obs: &Obs) {
        self.cases += 1;
        self.evals += obs.evals.max(1) as u64;
        for u in &obs.unspec {
            *self.unspec.entry(u.to_string()).or_insert(0) += 1;
        }
        for c in &obs.classes {
            *self.classes.entry(c.clone()).or_insert(0) += 1;
        }
        if obs.nontrivial {
            self.nontrivial += 1;
            let text = case.to_string();
            self.hashes.push(fnv(&text));
            let label = obs.classes.first().cloned().unwrap_or_else(|| "nontrivial".to_string());
            let n = self.sample_classes.entry(label.clone()).or_insert(0);
            if *n < 2 && self.samples.len() < 24 && text.len() < 600 {
                *n += 1;
                self.samples.push(json!({"class": label, "case_text": text}));
            }
        }
    }
    fn to_json(&self, hash_file: &str) -> Value {
        json!({
            "cases": self.cases, "evals": self.evals, "nontrivial": self.nontrivial, "fixed_cases": self.fixed_cases,
            "classes": self.classes, "unspec": self.unspec, "known": self.known,
            "samples": self.samples, "violations": self.violations, "hash_file": hash_file,
        })
    }
}

/// CPU-time watchdog + "current case" side file (crash attribution).
pub static CASE_STARTED_CPU_MS: AtomicU64 = AtomicU64::new(0);
pub static CASE_ACTIVE: AtomicBool = AtomicBool::new(false);
static CURRENT_CASE: Mutex<Option<String>> = Mutex::new(None);

fn cpu_ms() -> u64 {
    unsafe {
        let mut ts: libc::timespec = std::mem::zeroed();
        libc::clock_gettime(libc::CLOCK_PROCESS_CPUTIME_ID, &mut ts);
        (ts.tv_sec as u64) * 1000 + (ts.tv_nsec as u64) / 1_000_000
    }
}

pub const HANG_CPU_MS: u64 = 20_000;

fn start_watchdog(hang_file: PathBuf, sub_name: &'static Mutex<String>) {
    std::thread::spawn(move || loop {
        std::thread::sleep(Duration::from_millis(250));
        if CASE_ACTIVE.load(Ordering::SeqCst) {
            let now = cpu_ms();
            // the code under test: one call that burns more than HANG_CPU_MS of CPU is a hang
            let impl_started = crate::imp::IMPL_STARTED_CPU_MS.load(Ordering::SeqCst);
            if impl_started != 0 && now > impl_started + HANG_CPU_MS {
                let case = CURRENT_CASE.lock().map(|c| c.clone()).unwrap_or(None).unwrap_or_default();
                let sub = sub_name.lock().map(|s| s.clone()).unwrap_or_default();
                let rec = json!({"sub": sub, "case_text": case, "msg": format!("one evaluation by the implementation used more than {} ms of CPU time although the reference model finds the case cheap (hang)", HANG_CPU_MS)});
                let _ = std::fs::write(&hang_file, rec.to_string());
                unsafe { libc::_exit(97) };
            }
            // the whole case (oracle included): far above any sensible cost means the *check* is too slow - inconclusive
            let started = CASE_STARTED_CPU_MS.load(Ordering::SeqCst);
            if now > started + 15 * HANG_CPU_MS {
                let case = CURRENT_CASE.lock().map(|c| c.clone()).unwrap_or(None).unwrap_or_default();
                let sub = sub_name.lock().map(|s| s.clone()).unwrap_or_default();
                let rec = json!({"sub": sub, "case_text": case, "oracle_slow": true, "msg": "the check itself (oracle + implementation calls) used more than 300 s of CPU on one case"});
                let _ = std::fs::write(&hang_file, rec.to_string());
                unsafe { libc::_exit(98) };
            }
        }
    });
}

static CURRENT_SUB: Mutex<String> = Mutex::new(String::new());

pub struct WorkerArgs {
    pub prop: String,
    pub tier: String,
    pub worker: u64,
    pub of: u64,
    pub seed: u64,
    pub out_dir: PathBuf,
    pub profile: String,
    pub verif_root: PathBuf,
    /// fraction of the generated budget this worker group gets (1.0 normally; C01 splits between profiles)
    pub scale: f64,
    /// only this sub-check (empty = all)
    pub only_sub: String,
    /// replay exactly these cases instead of generating: (sub, case)
    pub replay: Vec<(String, Value)>,
    pub strict: bool,
}

fn run_one(sub: &Sub, case: &Value, obs: &mut Obs, track: bool) -> Result<(), String> {
    if track {
        if let Ok(mut c) = CURRENT_CASE.lock() {
            *c = Some(case.to_string());
        }
    }
    CASE_STARTED_CPU_MS.store(cpu_ms(), Ordering::SeqCst);
    CASE_ACTIVE.store(true, Ordering::SeqCst);
    let r = if sub.small_stack {
        let check = sub.check;
        let case2 = case.clone();
        let handle = std::thread::Builder::new().stack_size(2 * 1024 * 1024).spawn(move || {
            let mut o = Obs::default();
            let r = check(&case2, &mut o);
            (r, o)
        });
        match handle {
            Ok(h) => match h.join() {
                Ok((r, o)) => {
                    *obs = o;
                    r
                }
                Err(_) => Err("check thread panicked".to_string()),
            },
            Err(e) => Err(format!("could not spawn thread: {}", e)),
        }
    } else {
        match crate::imp::guarded(|| (sub.check)(case, obs)) {
            Ok(r) => r,
            Err(m) => Err(format!("panic escaped into the check: {}", m)),
        }
    };
    CASE_ACTIVE.store(false, Ordering::SeqCst);
    r
}

pub fn worker_main(prop: &Property, args: &WorkerArgs) -> i32 {
    crate::imp::install_panic_hook();
    crate::capture::install(true);
    let known = load_known(&args.verif_root);
    let track = true;
    let hang_file = args.out_dir.join(format!("w{}-{}.hang", args.worker, args.profile));
    let cur_file = args.out_dir.join(format!("w{}-{}.current", args.worker, args.profile));
    // self-test of the orchestrator's confirmation step (never set by a registered command): the first worker that
    // sees the marker missing pretends to have been stopped by the watchdog
    if let Ok(marker) = std::env::var("JLV_FAKE_STALL_ONCE") {
        if args.worker == 3 && !std::path::Path::new(&marker).exists() {
            let _ = std::fs::write(&marker, "x");
            let _ = std::fs::write(&hang_file, json!({"sub": "selftest", "case_text": "null", "msg": "fake stall"}).to_string());
            return 97;
        }
    }
    start_watchdog(hang_file, &CURRENT_SUB);

    let mut result = Map::new();
    let thorough = args.tier == "thorough";

    // ---- replay mode
    if !args.replay.is_empty() {
        for (sub_name, case) in &args.replay {
            let sub = match prop.subs.iter().find(|s| s.name == sub_name) {
                Some(s) => s,
                None => {
                    let mut st = SubStats::default();
                    st.violations.push(json!({"case_text": case.to_string(), "msg": format!("unknown sub-check {}", sub_name), "oracle_broken": true}));
                    result.insert(sub_name.clone(), st.to_json(""));
                    continue;
                }
            };
            let mut st = SubStats::default();
            let mut obs = Obs::default();
            match run_one(sub, case, &mut obs, track) {
                Ok(()) => st.record(case, &obs),
                Err(msg) => {
                    let text = case.to_string();
                    if let (false, Some(k)) = (args.strict, known_match(&known, prop.id, sub.name, &text, &msg)) {
                        *st.known.entry(k.what.clone()).or_insert(0) += 1;
                    } else {
                        st.violations.push(json!({"case_text": text, "msg": msg}));
                    }
                }
            }
            let prev = result.remove(&sub_name.clone());
            let merged = merge_sub_json(prev, st.to_json(""));
            result.insert(sub_name.clone(), merged);
        }
        let out = args.out_dir.join(format!("w{}-{}.json", args.worker, args.profile));
        let _ = std::fs::write(&out, Value::Object(result).to_string());
        return 0;
    }

    for sub in &prop.subs {
        if !args.only_sub.is_empty() && args.only_sub != sub.name {
            continue;
        }
        if let Ok(mut s) = CURRENT_SUB.lock() {
            *s = sub.name.to_string();
        }
        let stats = RefCell::new(SubStats::default());
        let failed = Cell::new(false);
        let cur_fd = std::fs::OpenOptions::new().create(true).write(true).truncate(true).open(&cur_file).ok();
        let write_current = |case: &Value| {
            if prop.id == "C01" {
                if let Some(f) = &cur_fd {
                    use std::os::unix::fs::FileExt;
                    let rec = json!({"sub": sub.name, "case_text": case.to_string()}).to_string();
                    let mut padded = rec.into_bytes();
                    padded.push(b'\n');
                    let _ = f.set_len(0);
                    let _ = f.write_all_at(&padded, 0);
                }
            }
        };

        // ---- enumerated cases
        if let Some(fixed) = sub.fixed {
            let all = fixed();
            for (i, case) in all.iter().enumerate() {
                if (i as u64) % args.of != args.worker {
                    continue;
                }
                write_current(case);
                let mut obs = Obs::default();
                match run_one(sub, case, &mut obs, track) {
                    Ok(()) => {
                        let mut st = stats.borrow_mut();
                        st.record(case, &obs);
                        st.fixed_cases += 1;
                    }
                    Err(msg) => {
                        let text = case.to_string();
                        let mut st = stats.borrow_mut();
                        if let Some(k) = known_match(&known, prop.id, sub.name, &text, &msg) {
                            *st.known.entry(k.what.clone()).or_insert(0) += 1;
                        } else if st.violations.len() < 5 {
                            let broken = msg.starts_with("oracle_broken:");
                            st.violations.push(json!({"case_text": text, "msg": msg, "from": "enumerated", "oracle_broken": broken}));
                        }
                    }
                }
            }
        }

        // ---- generated cases
        if let Some(strategy) = sub.strategy {
            let total = if thorough { sub.thorough } else { sub.quick };
            let total = ((total as f64) * args.scale) as u64;
            let mut n = total / args.of;
            if args.worker < total % args.of {
                n += 1;
            }
            if n > 0 && stats.borrow().violations.is_empty() {
                let seed = derive_seed(args.seed, prop.id, sub.name, args.worker, &args.profile);
                let rng = TestRng::from_seed(RngAlgorithm::ChaCha, &seed);
                let config = Config {
                    cases: n.min(u32::MAX as u64) as u32,
                    max_shrink_iters: 4096,
                    failure_persistence: None,
                    max_global_rejects: 1_000_000,
                    verbose: 0,
                    ..Config::default()
                };
                let mut runner = TestRunner::new_with_rng(config, rng);
                let strat = strategy();
                let run = runner.run(&strat, |case| {
                    if !failed.get() {
                        write_current(&case);
                    }
                    let mut obs = Obs::default();
                    let r = run_one(sub, &case, &mut obs, track);
                    match r {
                        Ok(()) => {
                            if !failed.get() {
                                stats.borrow_mut().record(&case, &obs);
                            }
                            Ok(())
                        }
                        Err(msg) => {
                            let text = case.to_string();
                            if let Some(k) = known_match(&known, prop.id, sub.name, &text, &msg) {
                                if !failed.get() {
                                    *stats.borrow_mut().known.entry(k.what.clone()).or_insert(0) += 1;
                                }
                                Ok(())
                            } else {
                                failed.set(true);
                                Err(TestCaseError::fail(msg))
                            }
                        }
                    }
                });
                if let Err(e) = run {
                    match e {
                        TestError::Fail(reason, minimal) => {
                            let m = reason.message().to_string();
                            let broken = m.starts_with("oracle_broken:");
                            stats.borrow_mut().violations.push(json!({"case_text": minimal.to_string(), "msg": m, "from": "generated+shrunk", "oracle_broken": broken}));
                        }
                        TestError::Abort(reason) => {
                            stats.borrow_mut().violations.push(json!({"case_text": "null", "msg": format!("proptest aborted: {}", reason.message()), "oracle_broken": true}));
                        }
                    }
                }
            }
        }

        let st = stats.into_inner();
        let hash_file = args.out_dir.join(format!("w{}-{}-{}.hashes", args.worker, args.profile, sub.name));
        if let Ok(mut f) = std::fs::File::create(&hash_file) {
            let mut buf = Vec::with_capacity(st.hashes.len() * 8);
            for h in &st.hashes {
                buf.extend_from_slice(&h.to_le_bytes());
            }
            let _ = f.write_all(&buf);
        }
        result.insert(sub.name.to_string(), st.to_json(&hash_file.to_string_lossy()));
    }
    let _ = std::fs::remove_file(&cur_file);
    let out = args.out_dir.join(format!("w{}-{}.json", args.worker, args.profile));
    let tmp = args.out_dir.join(format!("w{}-{}.json.tmp", args.worker, args.profile));
    let _ = std::fs::write(&tmp, Value::Object(result).to_string());
    let _ = std::fs::rename(&tmp, &out);
    0
}

fn merge_count_maps(a: &mut BTreeMap<String, u64>, b: Option<&Value>) {
    if let Some(Value::Object(m)) = b {
        for (k, v) in m {
            *a.entry(k.clone()).or_insert(0) += v.as_u64().unwrap_or(0);
        }
    }
}

fn merge_sub_json(prev: Option<Value>, next: Value) -> Value {
    let prev = match prev {
        None => return next,
        Some(p) => p,
    };
    let mut out = Map::new();
    for key in ["cases", "evals", "nontrivial", "fixed_cases"] {
        out.insert(key.to_string(), json!(prev[key].as_u64().unwrap_or(0) + next[key].as_u64().unwrap_or(0)));
    }
    for key in ["classes", "unspec", "known"] {
        let mut m = BTreeMap::new();
        merge_count_maps(&mut m, prev.get(key));
        merge_count_maps(&mut m, next.get(key));
        out.insert(key.to_string(), json!(m));
    }
    for key in ["samples", "violations"] {
        let mut v = prev[key].as_array().cloned().unwrap_or_default();
        v.extend(next[key].as_array().cloned().unwrap_or_default());
        out.insert(key.to_string(), Value::Array(v));
    }
    out.insert("hash_file".to_string(), json!(""));
    Value::Object(out)
}

// ------------------------------------------------------------------------------------------------ orchestrator

pub struct Merged {
    pub subs: BTreeMap<String, MergedSub>,
}
#[derive(Default)]
pub struct MergedSub {
    pub cases: u64,
    pub evals: u64,
    pub nontrivial: u64,
    pub fixed_cases: u64,
    pub distinct: HashSet<u64>,
    pub classes: BTreeMap<String, u64>,
    pub unspec: BTreeMap<String, u64>,
    pub known: BTreeMap<String, u64>,
    pub samples: Vec<Value>,
    pub violations: Vec<Value>,
}

pub fn merge_worker_file(into: &mut Merged, path: &Path) -> Result<(), String> {
    let text = std::fs::read_to_string(path).map_err(|e| format!("{}: {}", path.display(), e))?;
    let v: Value = serde_json::from_str(&text).map_err(|e| format!("{}: {}", path.display(), e))?;
    let obj = v.as_object().ok_or("worker result is not an object")?;
    for (name, s) in obj {
        let m = into.subs.entry(name.clone()).or_default();
        m.cases += s["cases"].as_u64().unwrap_or(0);
        m.evals += s["evals"].as_u64().unwrap_or(0);
        m.nontrivial += s["nontrivial"].as_u64().unwrap_or(0);
        m.fixed_cases += s["fixed_cases"].as_u64().unwrap_or(0);
        merge_count_maps(&mut m.classes, s.get("classes"));
        merge_count_maps(&mut m.unspec, s.get("unspec"));
        merge_count_maps(&mut m.known, s.get("known"));
        if let Some(a) = s["samples"].as_array() {
            for x in a {
                if m.samples.len() < 40 {
                    m.samples.push(x.clone());
                }
            }
        }
        if let Some(a) = s["violations"].as_array() {
            m.violations.extend(a.iter().cloned());
        }
        if let Some(hf) = s["hash_file"].as_str() {
            if !hf.is_empty() {
                if let Ok(bytes) = std::fs::read(hf) {
                    for ch in bytes.chunks_exact(8) {
                        let mut b = [0u8; 8];
                        b.copy_from_slice(ch);
                        m.distinct.insert(u64::from_le_bytes(b));
                    }
                }
            }
        }
        // python / external workers report their hashes inline
        if let Some(a) = s.get("hashes").and_then(|h| h.as_array()) {
            for h in a {
                if let Some(u) = h.as_u64() {
                    m.distinct.insert(u);
                } else if let Some(t) = h.as_str() {
                    m.distinct.insert(fnv(t));
                }
            }
        }
    }
    Ok(())
}

pub struct RunOutcome {
    pub exit: i32,
}

pub fn wall_limit(tier: &str) -> Duration {
    let env = std::env::var("JLV_WALL_S").ok().and_then(|s| s.parse::<u64>().ok());
    // a backstop only (a hanging evaluation is caught by the CPU watchdog long before): the longest check takes about
    // 1 minute (quick) / 40 minutes (thorough) on a machine loaded four times over, so these leave an order of magnitude
    Duration::from_secs(env.unwrap_or(if tier == "thorough" { 14400 } else { 1800 }))
}

/// Wait for children with a wall-clock limit.  Returns per-child exit description; None = killed by the watchdog.
pub fn wait_all(children: Vec<(String, std::process::Child)>, limit: Duration, started: Instant) -> Vec<(String, Option<std::process::ExitStatus>)> {
    let mut pending: Vec<(String, std::process::Child)> = children;
    let mut done = vec![];
    while !pending.is_empty() {
        let mut still = vec![];
        for (name, mut ch) in pending {
            match ch.try_wait() {
                Ok(Some(st)) => done.push((name, Some(st))),
                Ok(None) => {
                    if started.elapsed() > limit {
                        let _ = ch.kill();
                        let _ = ch.wait();
                        done.push((name, None));
                    } else {
                        still.push((name, ch));
                    }
                }
                Err(_) => done.push((name, None)),
            }
        }
        pending = still;
        if !pending.is_empty() {
            std::thread::sleep(Duration::from_millis(20));
        }
    }
    done
}

pub fn sample_strategy(strategy: fn() -> BoxedStrategy<Value>, n: usize, seed: u64) -> Vec<Value> {
    let rng = TestRng::from_seed(RngAlgorithm::ChaCha, &derive_seed(seed, "sample", "sample", 0, "x"));
    let mut runner = TestRunner::new_with_rng(Config::default(), rng);
    let s = strategy();
    (0..n).filter_map(|_| s.new_tree(&mut runner).ok().map(|t| t.current())).collect()
}
