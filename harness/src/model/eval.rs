//! The three-valued reference interpreter (DESIGN.md 2.2 and Appendix A).
//! Written from the property statements; deliberately naive; shares no code with /repo.

use super::coerce::{self, Tri};
use serde_json::{Map, Value};

#[derive(Debug, Clone, PartialEq)]
pub enum Res {
    /// the properties determine this value
    Ok(Value),
    /// the properties say an error must be returned
    Err,
    /// no listed property determines the outcome (reason = U-zone id)
    Unspec(&'static str),
}

impl Res {
    pub fn ok_value(self) -> Option<Value> {
        match self {
            Res::Ok(v) => Some(v),
            _ => None,
        }
    }
    pub fn is_ok(&self) -> bool {
        matches!(self, Res::Ok(_))
    }
    pub fn is_err(&self) -> bool {
        matches!(self, Res::Err)
    }
}

#[derive(Debug, Clone, Copy, PartialEq, Eq)]
pub enum Class {
    Eager,
    Data,
    Lazy,
}

/// (name, class, min operands, max operands or usize::MAX) - transcribed from the statement of C03.
pub const OPS: &[(&str, Class, usize, usize)] = &[
    ("==", Class::Eager, 2, 2),
    ("!=", Class::Eager, 2, 2),
    ("===", Class::Eager, 2, 2),
    ("!==", Class::Eager, 2, 2),
    ("!", Class::Eager, 1, 1),
    ("!!", Class::Eager, 1, 1),
    ("<", Class::Eager, 2, 3),
    ("<=", Class::Eager, 2, 3),
    (">", Class::Eager, 2, 3),
    (">=", Class::Eager, 2, 3),
    ("+", Class::Eager, 0, usize::MAX),
    ("-", Class::Eager, 1, 2),
    ("*", Class::Eager, 1, usize::MAX),
    ("/", Class::Eager, 2, 2),
    ("%", Class::Eager, 2, 2),
    ("max", Class::Eager, 1, usize::MAX),
    ("min", Class::Eager, 1, usize::MAX),
    ("merge", Class::Eager, 0, usize::MAX),
    ("in", Class::Eager, 2, 2),
    ("cat", Class::Eager, 0, usize::MAX),
    ("substr", Class::Eager, 2, 3),
    ("log", Class::Eager, 1, 1),
    ("var", Class::Data, 0, 2),
    ("missing", Class::Data, 0, usize::MAX),
    ("missing_some", Class::Data, 2, 2),
    ("if", Class::Lazy, 0, usize::MAX),
    ("?:", Class::Lazy, 0, usize::MAX),
    ("or", Class::Lazy, 1, usize::MAX),
    ("and", Class::Lazy, 1, usize::MAX),
    ("map", Class::Lazy, 2, 2),
    ("filter", Class::Lazy, 2, 2),
    ("reduce", Class::Lazy, 3, 3),
    ("all", Class::Lazy, 2, 2),
    ("some", Class::Lazy, 2, 2),
    ("none", Class::Lazy, 2, 2),
];

pub fn op_info(name: &str) -> Option<(usize, Class, usize, usize)> {
    OPS.iter().position(|o| o.0 == name).map(|i| (i, OPS[i].1, OPS[i].2, OPS[i].3))
}

pub fn arity_ok(name: &str, n: usize) -> bool {
    match op_info(name) {
        Some((_, _, lo, hi)) => n >= lo && n <= hi,
        None => false,
    }
}

/// A.1: is this value an operation?  Returns (operator name, operand value).
pub fn as_operation(v: &Value) -> Option<(&str, &Value)> {
    let obj = v.as_object()?;
    if obj.len() != 1 {
        return None;
    }
    let (k, operand) = obj.iter().next()?;
    if op_info(k).is_some() {
        Some((k.as_str(), operand))
    } else {
        None
    }
}

pub fn operands(operand: &Value) -> Vec<&Value> {
    match operand {
        Value::Array(items) => items.iter().collect(),
        other => vec![other],
    }
}

/// Would the implementation's *eager parser* accept this expression?  (Only used to delimit zone U7.)
/// Eager and data operators validate their own arity and recurse into operands; lazy operators validate
/// their own arity only; everything else is a literal.
pub fn eager_parse_ok(v: &Value) -> bool {
    match as_operation(v) {
        None => true,
        Some((name, operand)) => {
            let args = operands(operand);
            if !arity_ok(name, args.len()) {
                return false;
            }
            match op_info(name).unwrap().1 {
                Class::Lazy => true,
                _ => args.iter().all(|a| eager_parse_ok(a)),
            }
        }
    }
}

pub fn node_count(v: &Value) -> u64 {
    match v {
        Value::Array(a) => 1 + a.iter().map(node_count).sum::<u64>(),
        Value::Object(o) => 1 + o.values().map(node_count).sum::<u64>(),
        Value::String(s) => 1 + (s.len() as u64) / 16,
        _ => 1,
    }
}

pub fn is_op_shaped(v: &Value) -> bool {
    as_operation(v).is_some()
}

pub fn contains_op_shaped(v: &Value) -> bool {
    if is_op_shaped(v) {
        return true;
    }
    match v {
        Value::Array(a) => a.iter().any(contains_op_shaped),
        Value::Object(o) => o.values().any(contains_op_shaped),
        _ => false,
    }
}

pub const MAX_STEPS: u64 = 200_000;
pub const MAX_NODES: u64 = 1_000_000;

#[derive(Debug, Default, Clone)]
pub struct Ctx {
    /// log lines in model evaluation order (left to right)
    pub trace: Vec<String>,
    pub steps: u64,
    pub nodes: u64,
    pub over_budget: bool,
    /// over budget by the static bound (the model itself stopped at an unspecified zone)
    pub cost_unbounded: bool,
    /// bit i set <=> operator OPS[i] was executed with a valid operand count
    pub ops_executed: u64,
    /// operands / branches / elements skipped by short-circuit evaluation
    pub skipped: u32,
    /// skipped operands that contain a poison (log or always-erroring) expression
    pub skipped_poison: u32,
    /// operation-shaped values that flowed as inert data (var result, default, HOF element, computed collection)
    pub inert_op_shaped: u32,
    /// number of var lookups that descended >= 2 steps / used a negative index / indexed a string
    pub var_deep: u32,
    pub var_negative: u32,
    pub var_string_index: u32,
    pub var_default_used: u32,
    pub var_present_null: u32,
}

pub enum Lookup {
    Present(Value),
    Absent,
    Unspec(&'static str),
}

impl Ctx {
    pub fn new() -> Ctx {
        Ctx::default()
    }

    fn tick(&mut self) -> bool {
        self.steps += 1;
        if self.steps > MAX_STEPS || self.nodes > MAX_NODES {
            self.over_budget = true;
        }
        self.over_budget
    }

    fn note_value(&mut self, v: &Value) {
        self.nodes += node_count(v);
    }

    fn note_inert(&mut self, v: &Value) {
        if contains_op_shaped(v) {
            self.inert_op_shaped += 1;
        }
    }

    pub fn eval(&mut self, rule: &Value, data: &Value) -> Res {
        if self.tick() {
            return Res::Unspec("over_budget");
        }
        let (name, operand) = match as_operation(rule) {
            None => return Res::Ok(rule.clone()),
            Some(x) => x,
        };
        let args = operands(operand);
        if !arity_ok(name, args.len()) {
            return Res::Err;
        }
        let (idx, class, _, _) = op_info(name).unwrap();
        self.ops_executed |= 1u64 << idx;
        match class {
            Class::Lazy => self.lazy(name, &args, data),
            Class::Eager | Class::Data => {
                let mut vals: Vec<Value> = Vec::with_capacity(args.len());
                if name == "var" && args.len() == 2 {
                    return self.var_with_default(args[0], args[1], data);
                }
                for a in &args {
                    match self.eval(a, data) {
                        Res::Ok(v) => vals.push(v),
                        other => return other,
                    }
                }
                let r = self.apply_values(name, &vals, data);
                if let Res::Ok(v) = &r {
                    self.note_value(v);
                    if self.nodes > MAX_NODES {
                        self.over_budget = true;
                        return Res::Unspec("over_budget");
                    }
                }
                r
            }
        }
    }

    // ------------------------------------------------------------------ var (A.12)

    /// U14: the default expression of a two-operand `var`.
    fn var_with_default(&mut self, key_expr: &Value, default_expr: &Value, data: &Value) -> Res {
        let key = match self.eval(key_expr, data) {
            Res::Ok(v) => v,
            other => return other,
        };
        let trace_before = self.trace.len();
        let default = self.eval(default_expr, data);
        let default_has_effects = self.trace.len() != trace_before;
        let looked = self.lookup(&key, data);
        match looked {
            Lookup::Unspec(r) => Res::Unspec(r),
            Lookup::Present(v) => {
                // present: the value wins; whether an erroring / logging default was evaluated at all is U14
                match default {
                    Res::Ok(_) if !default_has_effects => {
                        self.note_inert(&v);
                        Res::Ok(v)
                    }
                    Res::Unspec(r) => Res::Unspec(r),
                    _ => Res::Unspec("U14"),
                }
            }
            Lookup::Absent => match default {
                Res::Ok(d) => {
                    // `null` / `""` keys return the data and never reach here (lookup says Present)
                    self.var_default_used += 1;
                    self.note_inert(&d);
                    Res::Ok(d)
                }
                other => other,
            },
        }
    }

    pub fn split_path(path: &str) -> Result<Vec<String>, &'static str> {
        let mut parts: Vec<String> = Vec::new();
        let mut cur = String::new();
        let mut escaped = false;
        let mut last_was_separator = false;
        for c in path.chars() {
            if escaped {
                cur.push(c);
                escaped = false;
                last_was_separator = false;
            } else if c == '\\' {
                escaped = true;
                last_was_separator = false;
            } else if c == '.' {
                parts.push(std::mem::take(&mut cur));
                last_was_separator = true;
            } else {
                cur.push(c);
                last_was_separator = false;
            }
        }
        if escaped {
            return Err("U2"); // dangling backslash
        }
        if last_was_separator {
            return Err("U2"); // empty last component ("a.", ".")
        }
        if cur.is_empty() {
            // reachable only for a path that ends in an escaped nothing; treat as U2 as well
            return Err("U2");
        }
        parts.push(cur);
        Ok(parts)
    }

    fn canonical_int(s: &str) -> Option<bool> {
        // Some(true): canonical integer -?(0|[1-9][0-9]*) except "-0"; Some(false): another integer spelling (U2); None: not an integer
        let b = s.as_bytes();
        if b.is_empty() {
            return None;
        }
        let (sign, digits) = match b[0] {
            b'-' => (1, &b[1..]),
            b'+' => (2, &b[1..]),
            _ => (0, b),
        };
        if digits.is_empty() || !digits.iter().all(|d| d.is_ascii_digit()) {
            return None;
        }
        let leading_zero = digits.len() > 1 && digits[0] == b'0';
        let neg_zero = sign == 1 && digits.iter().all(|d| *d == b'0');
        if sign == 2 || leading_zero || neg_zero {
            Some(false)
        } else {
            Some(true)
        }
    }

    fn index_into(len: usize, text: &str) -> Result<Option<usize>, &'static str> {
        match Self::canonical_int(text) {
            None => Ok(None),
            Some(false) => Err("U2"),
            Some(true) => {
                let neg = text.starts_with('-');
                let mag: Option<u128> = text.trim_start_matches('-').parse::<u128>().ok();
                let mag = match mag {
                    Some(m) => m,
                    None => return Ok(None), // astronomically large: out of range either way
                };
                if neg {
                    if mag == 0 || mag > len as u128 {
                        // -len .. -1 are valid; note "-0" was excluded above
                        Ok(None)
                    } else {
                        Ok(Some(len - mag as usize))
                    }
                } else if mag < len as u128 {
                    Ok(Some(mag as usize))
                } else {
                    Ok(None)
                }
            }
        }
    }

    /// Follow `parts` from `cur` by reference (only the value found is cloned: the model must stay cheap on large
    /// documents, the implementation under test is the one being measured).
    fn walk(&mut self, cur: &Value, parts: &[String]) -> Lookup {
        let (comp, rest) = match parts.split_first() {
            None => return Lookup::Present(cur.clone()),
            Some(x) => x,
        };
        match cur {
            Value::Object(m) => match m.get(comp.as_str()) {
                Some(v) => self.walk(v, rest),
                None => Lookup::Absent,
            },
            Value::Array(a) => match Self::index_into(a.len(), comp) {
                Err(r) => Lookup::Unspec(r),
                Ok(None) => Lookup::Absent,
                Ok(Some(i)) => {
                    if comp.starts_with('-') {
                        self.var_negative += 1;
                    }
                    self.walk(&a[i], rest)
                }
            },
            Value::String(s) => {
                let n = s.chars().count();
                match Self::index_into(n, comp) {
                    Err(r) => Lookup::Unspec(r),
                    Ok(None) => Lookup::Absent,
                    Ok(Some(i)) => {
                        if comp.starts_with('-') {
                            self.var_negative += 1;
                        }
                        self.var_string_index += 1;
                        let ch = Value::String(s.chars().nth(i).map(|c| c.to_string()).unwrap_or_default());
                        self.walk(&ch, rest)
                    }
                }
            }
            _ => Lookup::Absent,
        }
    }

    /// A.12 resolution of an (already evaluated) key against the data.
    pub fn lookup(&mut self, key: &Value, data: &Value) -> Lookup {
        match key {
            Value::Null => Lookup::Present(data.clone()),
            Value::String(s) if s.is_empty() => Lookup::Present(data.clone()),
            Value::String(s) => {
                let parts = match Self::split_path(s) {
                    Ok(p) => p,
                    Err(r) => return Lookup::Unspec(r),
                };
                if parts.len() >= 2 {
                    self.var_deep += 1;
                }
                self.walk(data, &parts)
            }
            Value::Number(n) => {
                // integer-valued JSON integer in i64, else U3
                if n.is_f64() {
                    return Lookup::Unspec("U3");
                }
                let i = match n.as_i64() {
                    Some(i) => i,
                    None => return Lookup::Unspec("U3"),
                };
                let text = i.to_string();
                match data {
                    Value::Object(_) | Value::Array(_) | Value::String(_) => self.walk(data, &[text]),
                    _ => Lookup::Absent,
                }
            }
            _ => Lookup::Unspec("U3"),
        }
    }

    // ------------------------------------------------------------------ eager / data operators on values

    fn tri(&self, t: Tri) -> Res {
        match t {
            Tri::True => Res::Ok(Value::Bool(true)),
            Tri::False => Res::Ok(Value::Bool(false)),
            Tri::Unspec(r) => Res::Unspec(r),
        }
    }

    fn compare(&self, name: &str, vals: &[Value]) -> Res {
        let one = |a: &Value, b: &Value| -> Tri {
            match name {
                "<" => coerce::relational(a, b, true),
                "<=" => coerce::relational(a, b, false),
                ">" => coerce::relational(b, a, true),
                _ => coerce::relational(b, a, false),
            }
        };
        let first = one(&vals[0], &vals[1]);
        if vals.len() == 2 {
            return self.tri(first);
        }
        let second = one(&vals[1], &vals[2]);
        let r = match (first, second) {
            (Tri::False, _) | (_, Tri::False) => Tri::False,
            (Tri::True, Tri::True) => Tri::True,
            (Tri::Unspec(r), _) | (_, Tri::Unspec(r)) => Tri::Unspec(r),
        };
        self.tri(r)
    }

    pub fn number_value(f: f64) -> Res {
        match coerce::number_result(f) {
            None => Res::Err,
            Some((v, as_int)) => {
                if as_int {
                    if v < 9223372036854775808.0 {
                        Res::Ok(Value::from(v as i64))
                    } else {
                        Res::Ok(Value::from(v as u64))
                    }
                } else {
                    match serde_json::Number::from_f64(v) {
                        Some(n) => Res::Ok(Value::Number(n)),
                        None => Res::Err,
                    }
                }
            }
        }
    }

    fn arithmetic(&self, name: &str, vals: &[Value]) -> Res {
        let mut any_u11 = false;
        let mut nums: Vec<f64> = Vec::with_capacity(vals.len());
        for v in vals {
            let (f, many) = match name {
                "+" | "*" => coerce::parse_float_ext(v),
                _ => coerce::to_number_ext(v),
            };
            any_u11 |= many;
            nums.push(f);
        }
        if nums.iter().any(|f| f.is_nan()) {
            // non-numeric operand: an error whatever the precise digits of a long literal elsewhere
            return Res::Err;
        }
        if any_u11 {
            return Res::Unspec("U11");
        }
        let r = match name {
            "+" => nums.iter().fold(0.0, |acc, x| acc + x),
            "*" => nums.iter().fold(1.0, |acc, x| acc * x),
            "-" => {
                if nums.len() == 1 {
                    -nums[0]
                } else {
                    nums[0] - nums[1]
                }
            }
            "/" => nums[0] / nums[1],
            "%" => libm_fmod(nums[0], nums[1]),
            "max" => nums.iter().cloned().fold(f64::NEG_INFINITY, |a, b| if b > a { b } else { a }),
            _ => nums.iter().cloned().fold(f64::INFINITY, |a, b| if b < a { b } else { a }),
        };
        Self::number_value(r)
    }

    fn substr(&self, vals: &[Value]) -> Res {
        let s = match &vals[0] {
            Value::String(s) => s,
            _ => return Res::Unspec("U4"),
        };
        let int = |v: &Value| -> Option<i64> {
            match v {
                Value::Number(n) if !n.is_f64() => n.as_i64(),
                _ => None,
            }
        };
        let i = match int(&vals[1]) {
            Some(i) => i,
            None => return Res::Unspec("U4"),
        };
        let l = if vals.len() == 3 {
            match int(&vals[2]) {
                Some(l) => Some(l),
                None => return Res::Unspec("U4"),
            }
        } else {
            None
        };
        let chars: Vec<char> = s.chars().collect();
        let n = chars.len() as i128;
        let (i, l) = (i as i128, l.map(|x| x as i128));
        let start = if i >= 0 { i.min(n) } else { (n + i).max(0) };
        let end = match l {
            None => n,
            Some(l) if l >= 0 => n.min(start + l),
            Some(l) => (n + l).max(0),
        };
        let out: String = if end <= start { String::new() } else { chars[start as usize..end as usize].iter().collect() };
        Res::Ok(Value::String(out))
    }

    fn key_list_bad(keys: &[Value]) -> bool {
        keys.iter().any(|k| match k {
            Value::Null | Value::String(_) => false,
            Value::Number(n) => n.is_f64() || n.as_i64().is_none(),
            _ => true,
        })
    }

    fn missing(&mut self, vals: &[Value], data: &Value) -> Res {
        let keys: Vec<Value> = match vals.first() {
            Some(Value::Array(inner)) => inner.clone(),
            _ => vals.to_vec(),
        };
        if Self::key_list_bad(&keys) {
            return Res::Unspec("U3");
        }
        let mut out: Vec<Value> = Vec::new();
        let mut dup_absent = false;
        for k in &keys {
            if k.is_null() {
                continue;
            }
            match self.lookup(k, data) {
                Lookup::Unspec(r) => return Res::Unspec(r),
                Lookup::Present(_) => {}
                Lookup::Absent => {
                    if out.contains(k) {
                        dup_absent = true;
                    }
                    out.push(k.clone());
                }
            }
        }
        if dup_absent {
            return Res::Unspec("U5");
        }
        Res::Ok(Value::Array(out))
    }

    fn missing_some(&mut self, vals: &[Value], data: &Value) -> Res {
        let n = match &vals[0] {
            Value::Number(n) if !n.is_f64() => match n.as_u64() {
                Some(u) => u,
                None => return Res::Unspec("U3"),
            },
            _ => return Res::Unspec("U3"),
        };
        let keys = match &vals[1] {
            Value::Array(k) => k.clone(),
            _ => return Res::Unspec("U3"),
        };
        if Self::key_list_bad(&keys) {
            return Res::Unspec("U3");
        }
        let mut distinct_present: Vec<Value> = Vec::new();
        let mut present_occurrences: u64 = 0;
        let mut null_keys: u64 = 0;
        let mut distinct_absent: Vec<Value> = Vec::new();
        for k in &keys {
            if k.is_null() {
                null_keys += 1;
                continue;
            }
            match self.lookup(k, data) {
                Lookup::Unspec(r) => return Res::Unspec(r),
                Lookup::Present(_) => {
                    present_occurrences += 1;
                    if !distinct_present.contains(k) {
                        distinct_present.push(k.clone());
                    }
                }
                Lookup::Absent => {
                    if !distinct_absent.contains(k) {
                        distinct_absent.push(k.clone());
                    }
                }
            }
        }
        let lo = distinct_present.len() as u64;
        let hi = present_occurrences + null_keys;
        if n <= lo {
            Res::Ok(Value::Array(vec![]))
        } else if n > hi {
            Res::Ok(Value::Array(distinct_absent))
        } else {
            Res::Unspec("U5")
        }
    }

    fn apply_values(&mut self, name: &str, vals: &[Value], data: &Value) -> Res {
        match name {
            "==" => self.tri(coerce::abstract_eq(&vals[0], &vals[1])),
            "!=" => self.tri(coerce::abstract_eq(&vals[0], &vals[1]).not()),
            "===" => self.tri(coerce::strict_eq(&vals[0], &vals[1])),
            "!==" => self.tri(coerce::strict_eq(&vals[0], &vals[1]).not()),
            "!" => Res::Ok(Value::Bool(!coerce::truthy(&vals[0]))),
            "!!" => Res::Ok(Value::Bool(coerce::truthy(&vals[0]))),
            "<" | "<=" | ">" | ">=" => self.compare(name, vals),
            "+" | "-" | "*" | "/" | "%" | "max" | "min" => self.arithmetic(name, vals),
            "merge" => {
                let mut out = Vec::new();
                for v in vals {
                    match v {
                        Value::Array(items) => out.extend(items.iter().cloned()),
                        other => out.push(other.clone()),
                    }
                }
                Res::Ok(Value::Array(out))
            }
            "in" => match &vals[1] {
                Value::String(h) => match &vals[0] {
                    Value::String(x) => Res::Ok(Value::Bool(contains_substring(h, x))),
                    _ => Res::Err,
                },
                Value::Array(items) => {
                    let mut unspec = None;
                    for it in items {
                        match coerce::deep_eq(it, &vals[0]) {
                            Tri::True => return Res::Ok(Value::Bool(true)),
                            Tri::Unspec(r) => unspec = Some(r),
                            Tri::False => {}
                        }
                    }
                    match unspec {
                        Some(r) => Res::Unspec(r),
                        None => Res::Ok(Value::Bool(false)),
                    }
                }
                Value::Null => Res::Ok(Value::Bool(false)),
                _ => Res::Err,
            },
            "cat" => {
                let mut out = String::new();
                for v in vals {
                    out.push_str(&coerce::str_form(v));
                }
                Res::Ok(Value::String(out))
            }
            "substr" => self.substr(vals),
            "log" => {
                let line = vals[0].to_string();
                // what is written counts towards the work budget (a loop that logs a growing accumulator is quadratic)
                self.nodes += (line.len() as u64) / 8;
                self.trace.push(line);
                Res::Ok(vals[0].clone())
            }
            "var" => {
                if vals.is_empty() {
                    return Res::Ok(data.clone());
                }
                // one operand (the two-operand form is handled by var_with_default)
                match self.lookup(&vals[0], data) {
                    Lookup::Unspec(r) => Res::Unspec(r),
                    Lookup::Present(v) => {
                        if v.is_null() {
                            self.var_present_null += 1;
                        }
                        self.note_inert(&v);
                        Res::Ok(v)
                    }
                    Lookup::Absent => Res::Ok(Value::Null),
                }
            }
            "missing" => self.missing(vals, data),
            "missing_some" => self.missing_some(vals, data),
            _ => Res::Unspec("internal: unknown eager operator"),
        }
    }

    // ------------------------------------------------------------------ lazy operators

    fn skip(&mut self, exprs: &[&Value]) {
        for e in exprs {
            self.skipped += 1;
            if contains_poison(e) {
                self.skipped_poison += 1;
            }
        }
    }

    fn lazy(&mut self, name: &str, args: &[&Value], data: &Value) -> Res {
        match name {
            "if" | "?:" => {
                if args.is_empty() {
                    return Res::Ok(Value::Null);
                }
                if args.len() == 1 {
                    return self.eval(args[0], data);
                }
                let mut i = 0;
                loop {
                    if i >= args.len() {
                        return Res::Ok(Value::Null);
                    }
                    if i == args.len() - 1 {
                        // trailing else
                        return self.eval(args[i], data);
                    }
                    let c = match self.eval(args[i], data) {
                        Res::Ok(v) => v,
                        other => return other,
                    };
                    if coerce::truthy(&c) {
                        let rest: Vec<&Value> = args[i + 2..].to_vec();
                        self.skip(&rest);
                        return self.eval(args[i + 1], data);
                    }
                    self.skip(&[args[i + 1]]);
                    i += 2;
                }
            }
            "and" | "or" => {
                let want_truthy = name == "or";
                let mut last = Value::Null;
                for (i, a) in args.iter().enumerate() {
                    let v = match self.eval(a, data) {
                        Res::Ok(v) => v,
                        other => return other,
                    };
                    if coerce::truthy(&v) == want_truthy {
                        let rest: Vec<&Value> = args[i + 1..].to_vec();
                        self.skip(&rest);
                        return Res::Ok(v);
                    }
                    last = v;
                }
                Res::Ok(last)
            }
            "map" | "filter" | "reduce" => self.hof(name, args, data),
            "all" | "some" | "none" => self.quantifier(name, args, data),
            _ => Res::Unspec("internal: unknown lazy operator"),
        }
    }

    fn hof(&mut self, name: &str, args: &[&Value], data: &Value) -> Res {
        let coll = match self.eval(args[0], data) {
            Res::Ok(v) => v,
            other => return other,
        };
        let init = if name == "reduce" {
            match self.eval(args[2], data) {
                Res::Ok(v) => Some(v),
                other => return other,
            }
        } else {
            None
        };
        let items: Vec<Value> = match coll {
            Value::Array(a) => a,
            Value::Null => vec![],
            _ => return Res::Err,
        };
        let expr = args[1];
        if items.is_empty() && !eager_parse_ok(expr) {
            return Res::Unspec("U7");
        }
        if is_op_shaped(args[0]) {
            for it in &items {
                self.note_inert(it);
            }
        }
        match name {
            "map" => {
                let mut out = Vec::with_capacity(items.len());
                for it in &items {
                    match self.eval(expr, it) {
                        Res::Ok(v) => {
                            self.note_inert(&v);
                            out.push(v)
                        }
                        other => return other,
                    }
                }
                let v = Value::Array(out);
                self.note_value(&v);
                Res::Ok(v)
            }
            "filter" => {
                let mut out = Vec::new();
                for it in &items {
                    match self.eval(expr, it) {
                        Res::Ok(v) => {
                            if coerce::truthy(&v) {
                                out.push(it.clone());
                            }
                        }
                        other => return other,
                    }
                }
                let v = Value::Array(out);
                self.note_value(&v);
                Res::Ok(v)
            }
            _ => {
                let mut acc = init.unwrap();
                for it in &items {
                    let mut scope = Map::new();
                    scope.insert("current".to_string(), it.clone());
                    scope.insert("accumulator".to_string(), acc);
                    let scope = Value::Object(scope);
                    self.note_value(&scope);
                    if self.nodes > MAX_NODES {
                        self.over_budget = true;
                        return Res::Unspec("over_budget");
                    }
                    match self.eval(expr, &scope) {
                        Res::Ok(v) => acc = v,
                        other => return other,
                    }
                }
                Res::Ok(acc)
            }
        }
    }

    fn quantifier(&mut self, name: &str, args: &[&Value], data: &Value) -> Res {
        let first = args[0];
        let pred = args[1];
        // (element, is_expression)
        let elements: Vec<(Value, bool)> = match first {
            Value::Array(items) => items.iter().map(|e| (e.clone(), true)).collect(),
            Value::String(s) => {
                self.nodes += s.len() as u64;
                if self.nodes > MAX_NODES {
                    self.over_budget = true;
                    return Res::Unspec("over_budget");
                }
                s.chars().map(|c| (Value::String(c.to_string()), false)).collect()
            }
            Value::Null => vec![],
            Value::Object(_) => {
                let v = match self.eval(first, data) {
                    Res::Ok(v) => v,
                    other => return other,
                };
                match v {
                    Value::Array(items) => {
                        for it in &items {
                            self.note_inert(it);
                        }
                        items.into_iter().map(|e| (e, false)).collect()
                    }
                    Value::String(s) => {
                        self.nodes += s.len() as u64;
                        if self.nodes > MAX_NODES {
                            self.over_budget = true;
                            return Res::Unspec("over_budget");
                        }
                        s.chars().map(|c| (Value::String(c.to_string()), false)).collect()
                    }
                    Value::Null => vec![],
                    _ => return Res::Err,
                }
            }
            _ => return Res::Err,
        };
        if elements.is_empty() {
            if !eager_parse_ok(pred) {
                return Res::Unspec("U7");
            }
            return Res::Ok(Value::Bool(name == "none"));
        }
        // all: stop at the first falsy verdict; some / none: stop at the first truthy verdict
        let stop_on = name != "all";
        for (i, (e, is_expr)) in elements.iter().enumerate() {
            let x = if *is_expr {
                match self.eval(e, data) {
                    Res::Ok(v) => v,
                    other => return other,
                }
            } else {
                e.clone()
            };
            let verdict = match self.eval(pred, &x) {
                Res::Ok(v) => coerce::truthy(&v),
                other => return other,
            };
            if verdict == stop_on {
                let rest: Vec<&Value> = elements[i + 1..].iter().filter(|(_, ex)| *ex).map(|(e, _)| e).collect();
                let skipped_data = elements.len() - 1 - i;
                self.skipped += skipped_data as u32;
                for r in rest {
                    if contains_poison(r) {
                        self.skipped_poison += 1;
                    }
                }
                return Res::Ok(Value::Bool(match name {
                    "all" => false,
                    "some" => true,
                    _ => false,
                }));
            }
        }
        Res::Ok(Value::Bool(match name {
            "all" => true,
            "some" => false,
            _ => true,
        }))
    }
}

/// a `log` operation or the canonical always-erroring expression `{"+":["x"]}`-like shapes
pub fn contains_poison(v: &Value) -> bool {
    if let Some((name, operand)) = as_operation(v) {
        if name == "log" {
            return true;
        }
        if name == "+" {
            if let Value::Array(a) = operand {
                if a.len() == 1 && a[0].as_str().map(|s| s.starts_with('x')).unwrap_or(false) {
                    return true;
                }
            }
        }
    }
    match v {
        Value::Array(a) => a.iter().any(contains_poison),
        Value::Object(o) => o.values().any(contains_poison),
        _ => false,
    }
}

fn contains_substring(h: &str, x: &str) -> bool {
    // the naive scan below is quadratic: for long operands (strings doubled by cat inside reduce) fall back to the
    // standard library's search, which is part of the trusted base
    if (h.len() as u64) * (x.len() as u64) > 4_000_000 {
        return h.contains(x);
    }
    // naive scan over characters, independent of str::contains
    let hc: Vec<char> = h.chars().collect();
    let xc: Vec<char> = x.chars().collect();
    if xc.is_empty() {
        return true;
    }
    if xc.len() > hc.len() {
        return false;
    }
    (0..=hc.len() - xc.len()).any(|i| hc[i..i + xc.len()] == xc[..])
}

/// C `fmod`: remainder with the sign of the dividend (Rust's `%` on f64 is exactly this operation).
fn libm_fmod(a: f64, b: f64) -> f64 {
    if a.is_nan() || b.is_nan() || a.is_infinite() || b == 0.0 {
        return f64::NAN;
    }
    if b.is_infinite() {
        return a;
    }
    a % b
}

/// Convenience: evaluate with a fresh context.
pub fn eval(rule: &Value, data: &Value) -> (Res, Ctx) {
    let mut ctx = Ctx::new();
    let r = ctx.eval(rule, data);
    let mut r = if ctx.over_budget { Res::Unspec("over_budget") } else { r };
    // the model stopped at an unspecified zone: it has not seen the rest of the rule, so only a static worst-case
    // bound can say whether the rule is cheap under every reading (model/cost.rs); if it is not, the case counts as
    // over budget like any other whose inherent cost is too high
    if let Res::Unspec(z) = r {
        if z != "over_budget" && !super::cost::cheap(rule, data) {
            ctx.over_budget = true;
            ctx.cost_unbounded = true;
            r = Res::Unspec("over_budget");
        }
    }
    (r, ctx)
}
