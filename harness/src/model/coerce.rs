//! ECMAScript coercions on JSON values, written from ECMA-262 and the property statements
//! (DESIGN.md Appendix A.3 - A.7).  Independent of /repo/src/js_op.rs; validated at start-up
//! against ground truth recorded from a real JavaScript engine (corpus/).

use serde_json::Value;

/// ECMAScript WhiteSpace + LineTerminator (what `String.prototype.trim`, `Number()` and `parseFloat` strip).
pub fn is_es_space(c: char) -> bool {
    matches!(
        c,
        '\u{0009}' | '\u{000A}' | '\u{000B}' | '\u{000C}' | '\u{000D}' | '\u{0020}' | '\u{00A0}' | '\u{1680}'
            | '\u{2000}'..='\u{200A}' | '\u{2028}' | '\u{2029}' | '\u{202F}' | '\u{205F}' | '\u{3000}' | '\u{FEFF}'
    )
}

/// A.3 truthiness table.
pub fn truthy(v: &Value) -> bool {
    match v {
        Value::Null => false,
        Value::Bool(b) => *b,
        Value::Number(n) => n.as_f64().map(|f| f != 0.0).unwrap_or(false),
        Value::String(s) => !s.is_empty(),
        Value::Array(a) => !a.is_empty(),
        Value::Object(_) => true,
    }
}

/// A.4 string form.
pub fn str_form(v: &Value) -> String {
    match v {
        Value::String(s) => s.clone(),
        Value::Null => "null".to_string(),
        Value::Bool(true) => "true".to_string(),
        Value::Bool(false) => "false".to_string(),
        Value::Number(n) => n.to_string(),
        Value::Object(_) => "[object Object]".to_string(),
        Value::Array(items) => {
            let mut out = String::new();
            for (i, it) in items.iter().enumerate() {
                if i > 0 {
                    out.push(',');
                }
                if !it.is_null() {
                    out.push_str(&str_form(it));
                }
            }
            out
        }
    }
}

/// Split `s` into (decimal literal prefix length in bytes) following StrUnsignedDecimalLiteral:
/// `D+ (. D*)? | . D+`, each optionally followed by `(e|E)(+|-)?D+`.  Returns 0 if no literal starts here.
fn unsigned_decimal_prefix(s: &[u8]) -> usize {
    let mut i = 0;
    while i < s.len() && s[i].is_ascii_digit() {
        i += 1;
    }
    let int_digits = i;
    let mut mantissa_end = i;
    if i < s.len() && s[i] == b'.' {
        let mut j = i + 1;
        while j < s.len() && s[j].is_ascii_digit() {
            j += 1;
        }
        let frac_digits = j - (i + 1);
        if int_digits > 0 || frac_digits > 0 {
            mantissa_end = j;
        }
    }
    if mantissa_end == 0 || (int_digits == 0 && mantissa_end == int_digits) {
        return 0;
    }
    let mut end = mantissa_end;
    if end < s.len() && (s[end] == b'e' || s[end] == b'E') {
        let mut k = end + 1;
        if k < s.len() && (s[k] == b'+' || s[k] == b'-') {
            k += 1;
        }
        let exp_start = k;
        while k < s.len() && s[k].is_ascii_digit() {
            k += 1;
        }
        if k > exp_start {
            end = k;
        }
    }
    end
}

/// Number of significant decimal digits in a decimal literal (for the U11 zone).
pub fn significant_digits(lit: &str) -> usize {
    let mantissa: &str = lit.split(|c| c == 'e' || c == 'E').next().unwrap_or("");
    let digits: Vec<u8> = mantissa.bytes().filter(|b| b.is_ascii_digit()).collect();
    let first = digits.iter().position(|d| *d != b'0');
    match first {
        None => 0,
        Some(f) => {
            let last = digits.iter().rposition(|d| *d != b'0').unwrap();
            last - f + 1
        }
    }
}

fn decimal_to_f64(lit: &str) -> f64 {
    // `lit` matches the StrUnsignedDecimalLiteral grammar, which Rust's parser accepts and rounds correctly.
    lit.parse::<f64>().unwrap_or(f64::NAN)
}

/// Correctly rounded value of a digit string in radix 2, 8 or 16 (None if a character is not a digit).
fn radix_value(digits: &str, radix: u32) -> Option<f64> {
    if digits.is_empty() {
        return None;
    }
    let per = match radix {
        2 => 1,
        8 => 3,
        16 => 4,
        _ => return None,
    };
    let mut bits: Vec<u8> = Vec::with_capacity(digits.len() * per);
    for c in digits.chars() {
        let d = c.to_digit(radix)?;
        for k in (0..per).rev() {
            bits.push(((d >> k) & 1) as u8);
        }
    }
    let first_one = match bits.iter().position(|b| *b == 1) {
        None => return Some(0.0),
        Some(p) => p,
    };
    let sig = &bits[first_one..];
    // keep 100 leading bits exactly, fold the rest into one sticky bit
    let keep = sig.len().min(100);
    let mut acc: u128 = 0;
    for b in &sig[..keep] {
        acc = (acc << 1) | (*b as u128);
    }
    let rest = &sig[keep..];
    if rest.iter().any(|b| *b == 1) {
        acc = (acc << 1) | 1;
    } else {
        acc <<= 1;
    }
    // value = acc * 2^(rest.len() - 1); `acc as f64` rounds to nearest even, the sticky bit is far below the
    // rounding position so the rounding is that of the exact value; scaling by a power of two is exact.
    let exp = rest.len() as i64 - 1;
    let base = acc as f64;
    if exp > 1100 {
        return Some(f64::INFINITY);
    }
    let mut v = base;
    let mut e = exp;
    while e > 0 {
        let step = e.min(512);
        v *= 2f64.powi(step as i32);
        e -= step;
    }
    if e < 0 {
        v /= 2.0;
    }
    Some(v)
}

/// A.5 StringToNumber.  NaN for anything that is not a StringNumericLiteral.
/// Second component: true when the literal is decimal with more than 20 significant digits (zone U11).
pub fn string_to_number_ext(s: &str) -> (f64, bool) {
    let t = s.trim_matches(is_es_space);
    if t.is_empty() {
        return (0.0, false);
    }
    let b = t.as_bytes();
    if b.len() >= 2 && b[0] == b'0' {
        let radix = match b[1] {
            b'x' | b'X' => 16,
            b'o' | b'O' => 8,
            b'b' | b'B' => 2,
            _ => 0,
        };
        if radix != 0 {
            return (radix_value(&t[2..], radix).unwrap_or(f64::NAN), false);
        }
    }
    let (neg, rest) = match b[0] {
        b'+' => (false, &t[1..]),
        b'-' => (true, &t[1..]),
        _ => (false, t),
    };
    let mag = if rest == "Infinity" {
        f64::INFINITY
    } else {
        let n = unsigned_decimal_prefix(rest.as_bytes());
        if n == 0 || n != rest.len() {
            return (f64::NAN, false);
        }
        let many = significant_digits(rest) > 20;
        let v = decimal_to_f64(rest);
        return (if neg { -v } else { v }, many);
    };
    (if neg { -mag } else { mag }, false)
}

pub fn string_to_number(s: &str) -> f64 {
    string_to_number_ext(s).0
}

/// A.5 parseFloat on a string.
pub fn parse_float_str_ext(s: &str) -> (f64, bool) {
    let t = s.trim_start_matches(is_es_space);
    let b = t.as_bytes();
    let (neg, rest) = match b.first() {
        Some(b'+') => (false, &t[1..]),
        Some(b'-') => (true, &t[1..]),
        _ => (false, t),
    };
    if rest.starts_with("Infinity") {
        return (if neg { f64::NEG_INFINITY } else { f64::INFINITY }, false);
    }
    let n = unsigned_decimal_prefix(rest.as_bytes());
    if n == 0 {
        return (f64::NAN, false);
    }
    let lit = &rest[..n];
    let v = decimal_to_f64(lit);
    (if neg { -v } else { v }, significant_digits(lit) > 20)
}

pub fn parse_float_str(s: &str) -> f64 {
    parse_float_str_ext(s).0
}

pub fn num(n: &serde_json::Number) -> f64 {
    n.as_f64().unwrap_or(f64::NAN)
}

/// A.5 ToNumber on any JSON value; second component = U11 flag.
pub fn to_number_ext(v: &Value) -> (f64, bool) {
    match v {
        Value::Null => (0.0, false),
        Value::Bool(b) => (if *b { 1.0 } else { 0.0 }, false),
        Value::Number(n) => (num(n), false),
        Value::String(s) => string_to_number_ext(s),
        Value::Array(_) | Value::Object(_) => string_to_number_ext(&str_form(v)),
    }
}
pub fn to_number(v: &Value) -> f64 {
    to_number_ext(v).0
}

/// A.5 parseFloat on any JSON value.
pub fn parse_float_ext(v: &Value) -> (f64, bool) {
    match v {
        Value::Number(n) => (num(n), false),
        Value::String(s) => parse_float_str_ext(s),
        _ => parse_float_str_ext(&str_form(v)),
    }
}

/// Exact mathematical value of an integral JSON number, if it is one (for zone U1).
pub fn exact_int(n: &serde_json::Number) -> Option<i128> {
    if let Some(i) = n.as_i64() {
        return Some(i as i128);
    }
    if let Some(u) = n.as_u64() {
        return Some(u as i128);
    }
    let f = n.as_f64()?;
    if f.fract() == 0.0 && f.abs() < 1e38 {
        Some(f as i128)
    } else {
        None
    }
}

/// Zone U1: two JSON numbers whose doubles are equal but whose exact values differ.
pub fn u1_pair(a: &serde_json::Number, b: &serde_json::Number) -> bool {
    if num(a) != num(b) {
        return false;
    }
    match (exact_int(a), exact_int(b)) {
        (Some(x), Some(y)) => x != y,
        _ => false,
    }
}

#[derive(Debug, Clone, Copy, PartialEq, Eq)]
pub enum Tri {
    True,
    False,
    /// not determined by the listed properties (reason = U-zone)
    Unspec(&'static str),
}
impl Tri {
    pub fn from_bool(b: bool) -> Tri {
        if b {
            Tri::True
        } else {
            Tri::False
        }
    }
    pub fn not(self) -> Tri {
        match self {
            Tri::True => Tri::False,
            Tri::False => Tri::True,
            u => u,
        }
    }
}

/// `==`, `===`: C07 says "numbers being IEEE doubles", C08's quantifier says ES_strict_eq: doubles decide.
fn num_eq(a: &serde_json::Number, b: &serde_json::Number) -> Tri {
    Tri::from_bool(num(a) == num(b))
}

/// `in` (C15 "numerically equal numbers"): zone U1 where exact values differ but doubles agree.
fn num_eq_u1(a: &serde_json::Number, b: &serde_json::Number) -> Tri {
    if u1_pair(a, b) {
        Tri::Unspec("U1")
    } else {
        Tri::from_bool(num(a) == num(b))
    }
}

fn num_str_eq(n: &serde_json::Number, s: &str) -> Tri {
    let (v, many) = string_to_number_ext(s);
    if many {
        return Tri::Unspec("U11");
    }
    // v is NaN => false
    Tri::from_bool(num(n) == v)
}

/// A.6 abstract equality (fresh instances).
pub fn abstract_eq(a: &Value, b: &Value) -> Tri {
    use Value::*;
    match (a, b) {
        (Null, Null) => Tri::True,
        (Null, _) | (_, Null) => Tri::False,
        (Bool(x), Bool(y)) => Tri::from_bool(x == y),
        (String(x), String(y)) => Tri::from_bool(x == y),
        (Number(x), Number(y)) => num_eq(x, y),
        (Number(x), String(y)) => num_str_eq(x, y),
        (String(x), Number(y)) => num_str_eq(y, x),
        (Bool(x), _) => abstract_eq(&Value::from(if *x { 1 } else { 0 }), b),
        (_, Bool(y)) => abstract_eq(a, &Value::from(if *y { 1 } else { 0 })),
        (Array(_), Array(_)) | (Array(_), Object(_)) | (Object(_), Array(_)) | (Object(_), Object(_)) => Tri::False,
        (Array(_), _) | (Object(_), _) => abstract_eq(&Value::String(str_form(a)), b),
        (_, Array(_)) | (_, Object(_)) => abstract_eq(a, &Value::String(str_form(b))),
    }
}

/// A.6 strict equality (fresh instances).
pub fn strict_eq(a: &Value, b: &Value) -> Tri {
    use Value::*;
    match (a, b) {
        (Null, Null) => Tri::True,
        (Bool(x), Bool(y)) => Tri::from_bool(x == y),
        (String(x), String(y)) => Tri::from_bool(x == y),
        (Number(x), Number(y)) => num_eq(x, y),
        _ => Tri::False,
    }
}

enum Prim {
    S(String),
    N(f64),
}
fn prim(v: &Value) -> Prim {
    match v {
        Value::String(s) => Prim::S(s.clone()),
        Value::Array(_) | Value::Object(_) => Prim::S(str_form(v)),
        _ => Prim::N(to_number(v)),
    }
}

fn cmp_code_points(a: &str, b: &str) -> std::cmp::Ordering {
    // deliberately not `a.cmp(b)`: compare the sequences of Unicode scalar values
    let mut x = a.chars();
    let mut y = b.chars();
    loop {
        match (x.next(), y.next()) {
            (None, None) => return std::cmp::Ordering::Equal,
            (None, Some(_)) => return std::cmp::Ordering::Less,
            (Some(_), None) => return std::cmp::Ordering::Greater,
            (Some(p), Some(q)) => {
                if p != q {
                    return (p as u32).cmp(&(q as u32));
                }
            }
        }
    }
}

/// A.7: `a < b` (strict = true) or `a <= b` (strict = false).
pub fn relational(a: &Value, b: &Value, strict: bool) -> Tri {
    let (pa, pb) = (prim(a), prim(b));
    match (pa, pb) {
        (Prim::S(x), Prim::S(y)) => {
            let o = cmp_code_points(&x, &y);
            Tri::from_bool(if strict { o == std::cmp::Ordering::Less } else { o != std::cmp::Ordering::Greater })
        }
        (pa, pb) => {
            let conv = |p: Prim| -> (f64, bool) {
                match p {
                    Prim::S(s) => string_to_number_ext(&s),
                    Prim::N(n) => (n, false),
                }
            };
            let (x, mx) = conv(pa);
            let (y, my) = conv(pb);
            if mx || my {
                return Tri::Unspec("U11");
            }
            if x.is_nan() || y.is_nan() {
                return Tri::False;
            }
            Tri::from_bool(if strict { x < y } else { x <= y })
        }
    }
}

/// Deep equality with numbers compared by value and objects as key -> value maps (A.10).
pub fn deep_eq(a: &Value, b: &Value) -> Tri {
    use Value::*;
    match (a, b) {
        (Null, Null) => Tri::True,
        (Bool(x), Bool(y)) => Tri::from_bool(x == y),
        (String(x), String(y)) => Tri::from_bool(x == y),
        (Number(x), Number(y)) => num_eq_u1(x, y),
        (Array(x), Array(y)) => {
            if x.len() != y.len() {
                return Tri::False;
            }
            let mut unspec = None;
            for (p, q) in x.iter().zip(y.iter()) {
                match deep_eq(p, q) {
                    Tri::False => return Tri::False,
                    Tri::Unspec(r) => unspec = Some(r),
                    Tri::True => {}
                }
            }
            unspec.map(Tri::Unspec).unwrap_or(Tri::True)
        }
        (Object(x), Object(y)) => {
            if x.len() != y.len() {
                return Tri::False;
            }
            let mut unspec = None;
            for (k, p) in x.iter() {
                match y.get(k) {
                    None => return Tri::False,
                    Some(q) => match deep_eq(p, q) {
                        Tri::False => return Tri::False,
                        Tri::Unspec(r) => unspec = Some(r),
                        Tri::True => {}
                    },
                }
            }
            unspec.map(Tri::Unspec).unwrap_or(Tri::True)
        }
        _ => Tri::False,
    }
}

/// A.8: the JSON number a finite double result must be returned as.  `None` => error (not finite).
/// Returned as (value, must_be_integer_spelling).
pub fn number_result(f: f64) -> Option<(f64, bool)> {
    if !f.is_finite() {
        return None;
    }
    let integral = f.fract() == 0.0;
    let fits = f >= -9223372036854775808.0 && f < 18446744073709551616.0;
    Some((f, integral && fits))
}
