//! Static worst-case work bound of a rule on a data document.
//!
//! The reference model stops at the first unspecified zone it meets, so for such cases it says nothing about how much
//! work the rest of the rule asks for - and a tower of nested quantifiers over a three-character string asks for
//! 3^depth predicate evaluations by the rule's own meaning.  Inherent cost is not a hang (DESIGN 2.2.1), so a case whose
//! model result is an unspecified zone is only handed to the implementation when this bound says the rule is cheap
//! under *every* reading: every operand evaluated, every element visited, no error cutting anything short.
//!
//! `bound(expr, scope)` returns (work, out): an upper bound on the evaluation work and on the size of the value
//! produced (nodes + characters), given an upper bound on the size of the data in scope.  Saturating arithmetic; a
//! fuel counter bounds the analysis itself.  Over-approximation only ever makes the harness skip a case.

use super::eval::as_operation;
use serde_json::Value;

pub const WORK_LIMIT: u64 = 2_000_000;
const FUEL: u64 = 200_000;

pub fn size(v: &Value) -> u64 {
    match v {
        Value::String(s) => 1 + s.chars().count() as u64,
        Value::Array(a) => a.iter().fold(1u64, |n, x| n.saturating_add(size(x))),
        Value::Object(o) => o.iter().fold(1u64, |n, (k, x)| n.saturating_add(1 + k.chars().count() as u64).saturating_add(size(x))),
        _ => 1,
    }
}

struct An {
    fuel: u64,
    blown: bool,
}

impl An {
    fn bound(&mut self, e: &Value, scope: u64) -> (u64, u64) {
        if self.fuel == 0 {
            self.blown = true;
            return (u64::MAX, u64::MAX);
        }
        self.fuel -= 1;
        let (name, operand) = match as_operation(e) {
            None => {
                return match e {
                    Value::Array(a) => {
                        let (mut w, mut o) = (1u64, 1u64);
                        for x in a {
                            let (wx, ox) = self.bound(x, scope);
                            w = w.saturating_add(wx);
                            o = o.saturating_add(ox);
                        }
                        (w.saturating_add(o), o)
                    }
                    other => {
                        let s = size(other);
                        (s, s)
                    }
                };
            }
            Some(x) => x,
        };
        let args: Vec<&Value> = match operand {
            Value::Array(a) => a.iter().collect(),
            other => vec![other],
        };
        match name {
            "map" | "filter" | "all" | "some" | "none" => {
                let (wc, oc) = match args.first() {
                    Some(a) => self.bound(a, scope),
                    None => (1, 1),
                };
                let (mut we, mut oe) = (1u64, 1u64);
                for a in args.iter().skip(1) {
                    let (w, o) = self.bound(a, oc);
                    we = we.saturating_add(w);
                    oe = oe.max(o);
                }
                let n = oc;
                let out = match name {
                    "map" => n.saturating_mul(oe).saturating_add(1),
                    "filter" => oc,
                    _ => 2,
                };
                (wc.saturating_add(n.saturating_mul(we.saturating_add(oc))).saturating_add(out).saturating_add(1), out)
            }
            "reduce" => {
                let (wc, oc) = match args.first() {
                    Some(a) => self.bound(a, scope),
                    None => (1, 1),
                };
                let (wi, oi) = match args.get(2) {
                    Some(a) => self.bound(a, scope),
                    None => (1, 1),
                };
                let mut w = wc.saturating_add(wi).saturating_add(1);
                let mut acc = oi;
                let mut k = 0u64;
                while k < oc {
                    let sc = oc.saturating_add(acc).saturating_add(24);
                    let (we, oe) = match args.get(1) {
                        Some(a) => self.bound(a, sc),
                        None => (1, 1),
                    };
                    w = w.saturating_add(we).saturating_add(sc);
                    acc = acc.max(oe);
                    k += 1;
                    if w > WORK_LIMIT || self.blown {
                        return (u64::MAX, u64::MAX);
                    }
                }
                // surplus operands, if any, are at worst evaluated once
                for a in args.iter().skip(3) {
                    w = w.saturating_add(self.bound(a, scope).0);
                }
                (w.saturating_add(acc), acc)
            }
            _ => {
                let (mut w, mut sum_o, mut max_o) = (1u64, 0u64, 0u64);
                for a in &args {
                    let (wa, oa) = self.bound(a, scope);
                    w = w.saturating_add(wa);
                    sum_o = sum_o.saturating_add(oa);
                    max_o = max_o.max(oa);
                }
                let out = match name {
                    "var" => scope.max(args.get(1).map(|_| max_o).unwrap_or(0)).max(1),
                    "cat" => sum_o.saturating_mul(25).saturating_add(1),
                    "merge" | "missing" | "missing_some" => sum_o.saturating_add(1),
                    "substr" | "log" | "if" | "?:" | "and" | "or" | "max" | "min" => max_o.max(2),
                    _ => 2,
                };
                (w.saturating_add(sum_o).saturating_add(out), out)
            }
        }
    }
}

/// Some(work bound) when the analysis completes, None when it ran out of fuel.
pub fn work_bound(rule: &Value, data: &Value) -> Option<u64> {
    let mut an = An { fuel: FUEL, blown: false };
    let (w, _) = an.bound(rule, size(data));
    if an.blown {
        None
    } else {
        Some(w)
    }
}

/// true when the rule is cheap on this data under every reading of the unspecified zones
pub fn cheap(rule: &Value, data: &Value) -> bool {
    matches!(work_bound(rule, data), Some(w) if w <= WORK_LIMIT)
}
