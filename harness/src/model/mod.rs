//! The oracle: an independent reference model of the 35 operators (three-valued) plus the ECMAScript coercions.
pub mod coerce;
pub mod cost;
pub mod eval;

pub use eval::{eval, Ctx, Res};

use serde_json::Value;

/// Numbers match when they have the same double and the same spelling class (integer vs float);
/// two zeros always match (zone U10).  Everything else structurally.
pub fn values_match(expected: &Value, actual: &Value) -> bool {
    match (expected, actual) {
        (Value::Number(a), Value::Number(b)) => {
            let (x, y) = (coerce::num(a), coerce::num(b));
            if x == 0.0 && y == 0.0 {
                return true;
            }
            if a.is_f64() != b.is_f64() {
                return false;
            }
            if a.is_f64() {
                x == y
            } else {
                coerce::exact_int(a) == coerce::exact_int(b)
            }
        }
        (Value::Array(a), Value::Array(b)) => a.len() == b.len() && a.iter().zip(b.iter()).all(|(p, q)| values_match(p, q)),
        (Value::Object(a), Value::Object(b)) => {
            a.len() == b.len() && a.iter().all(|(k, p)| b.get(k).map(|q| values_match(p, q)).unwrap_or(false))
        }
        (a, b) => a == b,
    }
}

/// Exact identity of two JSON values including number spelling (used where a value must come back unchanged).
pub fn identical(a: &Value, b: &Value) -> bool {
    a == b && a.to_string() == b.to_string()
}
