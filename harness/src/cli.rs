//! Driving the real `jsonlogic` binary (built from /repo with --features cmdline).

use std::io::{Read, Write};
use std::process::{Command, Stdio};
use std::time::{Duration, Instant};

#[derive(Debug, Clone)]
pub struct CliOut {
    /// exit code; None = killed by a signal
    pub code: Option<i32>,
    pub signal: Option<i32>,
    pub stdout: Vec<u8>,
    pub stderr: Vec<u8>,
    pub timed_out: bool,
}

#[derive(Debug, Clone, PartialEq)]
pub enum Channel {
    /// data text as the second argument
    Arg(String),
    /// no second argument, data on stdin
    StdinNoArg(String),
    /// second argument `-`, data on stdin
    StdinDash(String),
    /// like StdinNoArg, written in two chunks with a pause in between
    StdinChunked(String, usize, u64),
    /// data text as the second argument while stdin carries an unrelated, valid JSON text that must be ignored
    ArgWithDecoyStdin(String, String),
}

pub fn bin(profile: &str) -> Option<String> {
    let var = if profile == "release" || profile == "fast" { "JLV_CLI_RELEASE" } else { "JLV_CLI_DEV" };
    std::env::var(var).ok().filter(|p| std::path::Path::new(p).exists())
}

/// Run the command; a run that exceeds 30 s of wall-clock is repeated once with a 180 s limit, so that a starved
/// machine is not mistaken for a hanging command (a 3 ms process that is still running after 180 s is hanging).
pub fn run(bin: &str, rule_text: &str, channel: &Channel) -> Result<CliOut, String> {
    run_env(bin, rule_text, channel, None)
}

/// A perturbed process environment: cleared, then exactly these variables; another working directory.
#[derive(Debug, Clone)]
pub struct Env {
    /// start from an empty environment (otherwise the variables are added to the inherited one)
    pub clear: bool,
    pub vars: Vec<(String, String)>,
    pub cwd: String,
}

pub fn run_env(bin: &str, rule_text: &str, channel: &Channel, env: Option<&Env>) -> Result<CliOut, String> {
    let first = run_limited(bin, rule_text, channel, 30, env)?;
    if first.timed_out {
        return run_limited(bin, rule_text, channel, 180, env);
    }
    Ok(first)
}

/// Every ALL-CAPS identifier in the binary's bytes (3-40 characters): the names under which a program usually looks up
/// environment variables are string constants of the program, so a variable the code consults is among them.  Names
/// that configure the dynamic loader or the allocator rather than the program are left out.
pub fn candidate_env_names(bin: &str) -> Vec<String> {
    let bytes = match std::fs::read(bin) {
        Ok(b) => b,
        Err(_) => return vec![],
    };
    // Rust string constants are neither NUL-terminated nor separated from their neighbours, so no word boundary is
    // demanded: every maximal run of [A-Z0-9_] that starts with a letter and has 3-40 characters is a candidate
    let mut out = std::collections::BTreeSet::new();
    let mut i = 0;
    let is_id = |c: u8| c.is_ascii_uppercase() || c.is_ascii_digit() || c == b'_';
    while i < bytes.len() {
        if bytes[i].is_ascii_uppercase() {
            let mut j = i;
            while j < bytes.len() && is_id(bytes[j]) {
                j += 1;
            }
            if j - i >= 3 && j - i <= 40 {
                let name = String::from_utf8_lossy(&bytes[i..j]).to_string();
                let skip = name.starts_with("LD_") || name.starts_with("MALLOC_") || name.starts_with("GLIBC_") || name == "RUST_MIN_STACK" || name == "PATH";
                if !skip {
                    out.insert(name.trim_end_matches('_').to_string());
                    // glued to a following CamelCase word ("JSONLOGIC_COMPAT" + "AddrNotAvailable"): the last capital is not ours
                    if j < bytes.len() && bytes[j].is_ascii_lowercase() && j - i >= 4 {
                        out.insert(name[..name.len() - 1].trim_end_matches('_').to_string());
                    }
                    out.insert(name);
                }
            }
            i = j.max(i + 1);
        } else {
            i += 1;
        }
    }
    // keep the environment block modest (execve refuses one beyond a fraction of the stack limit): names that look like
    // configuration (an underscore, or longer) first, within a budget of 96 KiB
    let mut names: Vec<String> = out.into_iter().collect();
    names.sort_by_key(|n| (!n.contains('_'), std::cmp::Reverse(n.len().min(12)), n.clone()));
    let mut budget: usize = 96 * 1024;
    let mut kept = vec![];
    for n in names {
        let cost = n.len() + 12;
        if cost > budget {
            break;
        }
        budget -= cost;
        kept.push(n);
    }
    kept
}

fn run_limited(bin: &str, rule_text: &str, channel: &Channel, limit_s: u64, env: Option<&Env>) -> Result<CliOut, String> {
    let mut cmd = Command::new(bin);
    if let Some(e) = env {
        if e.clear {
            cmd.env_clear();
        }
        for (k, v) in &e.vars {
            cmd.env(k, v);
        }
        cmd.current_dir(&e.cwd);
    }
    cmd.arg(rule_text);
    let stdin_text: Option<(&str, Option<(usize, u64)>)> = match channel {
        Channel::Arg(d) => {
            cmd.arg(d);
            None
        }
        Channel::StdinNoArg(d) => Some((d, None)),
        Channel::StdinDash(d) => {
            cmd.arg("-");
            Some((d, None))
        }
        Channel::StdinChunked(d, at, ms) => Some((d, Some((*at, *ms)))),
        Channel::ArgWithDecoyStdin(d, decoy) => {
            cmd.arg(d);
            Some((decoy, None))
        }
    };
    cmd.env("RUST_BACKTRACE", "0").stdin(if stdin_text.is_some() { Stdio::piped() } else { Stdio::null() }).stdout(Stdio::piped()).stderr(Stdio::piped());
    let mut child = cmd.spawn().map_err(|e| format!("oracle_broken: cannot spawn {}: {}", bin, e))?;
    let mut feeder = None;
    if let Some((text, chunk)) = stdin_text {
        let mut sin = child.stdin.take().ok_or("no stdin")?;
        let bytes = text.as_bytes().to_vec();
        feeder = Some(std::thread::spawn(move || {
            match chunk {
                None => {
                    let _ = sin.write_all(&bytes);
                }
                Some((at, ms)) => {
                    let at = at.min(bytes.len());
                    let _ = sin.write_all(&bytes[..at]);
                    let _ = sin.flush();
                    std::thread::sleep(Duration::from_millis(ms));
                    let _ = sin.write_all(&bytes[at..]);
                }
            }
            drop(sin);
        }));
    }
    let mut so = child.stdout.take().ok_or("no stdout")?;
    let mut se = child.stderr.take().ok_or("no stderr")?;
    let t_out = std::thread::spawn(move || {
        let mut b = Vec::new();
        let _ = so.read_to_end(&mut b);
        b
    });
    let t_err = std::thread::spawn(move || {
        let mut b = Vec::new();
        let _ = se.read_to_end(&mut b);
        b
    });
    let started = Instant::now();
    let mut timed_out = false;
    let status = loop {
        match child.try_wait() {
            Ok(Some(st)) => break st,
            Ok(None) => {
                if started.elapsed() > Duration::from_secs(limit_s) {
                    timed_out = true;
                    let _ = child.kill();
                    break child.wait().map_err(|e| e.to_string())?;
                }
                std::thread::sleep(Duration::from_micros(300));
            }
            Err(e) => return Err(e.to_string()),
        }
    };
    if let Some(f) = feeder {
        let _ = f.join();
    }
    let stdout = t_out.join().unwrap_or_default();
    let stderr = t_err.join().unwrap_or_default();
    use std::os::unix::process::ExitStatusExt;
    Ok(CliOut { code: status.code(), signal: status.signal(), stdout, stderr, timed_out })
}

/// Run the command with its standard output attached to a pseudo-terminal (raw mode, so nothing is translated) and the
/// data as second argument.  None when the system hands out no pseudo-terminal.
pub fn run_tty(bin: &str, rule_text: &str, data_text: &str) -> Result<Option<CliOut>, String> {
    use std::os::unix::io::FromRawFd;
    let (mut master, mut slave): (libc::c_int, libc::c_int) = (0, 0);
    let rc = unsafe { libc::openpty(&mut master, &mut slave, std::ptr::null_mut(), std::ptr::null(), std::ptr::null()) };
    if rc != 0 {
        return Ok(None);
    }
    unsafe {
        let mut t: libc::termios = std::mem::zeroed();
        if libc::tcgetattr(slave, &mut t) == 0 {
            libc::cfmakeraw(&mut t);
            libc::tcsetattr(slave, libc::TCSANOW, &t);
        }
    }
    let slave_file = unsafe { std::fs::File::from_raw_fd(slave) };
    let mut master_file = unsafe { std::fs::File::from_raw_fd(master) };
    let out_end = slave_file.try_clone().map_err(|e| e.to_string())?;
    let mut child = {
        let mut cmd = Command::new(bin);
        cmd.arg(rule_text).arg(data_text).env("RUST_BACKTRACE", "0").env("TERM", "xterm-256color").stdin(Stdio::null()).stdout(Stdio::from(out_end)).stderr(Stdio::piped());
        cmd.spawn().map_err(|e| format!("oracle_broken: cannot spawn {}: {}", bin, e))?
    };
    drop(slave_file);
    let reader = std::thread::spawn(move || {
        let mut all = Vec::new();
        let mut buf = [0u8; 4096];
        loop {
            match master_file.read(&mut buf) {
                Ok(0) => break,
                Ok(n) => all.extend_from_slice(&buf[..n]),
                Err(_) => break, // EIO once the last slave descriptor is closed
            }
        }
        all
    });
    let mut se = child.stderr.take().ok_or("no stderr")?;
    let t_err = std::thread::spawn(move || {
        let mut b = Vec::new();
        let _ = se.read_to_end(&mut b);
        b
    });
    let started = Instant::now();
    let mut timed_out = false;
    let status = loop {
        match child.try_wait() {
            Ok(Some(st)) => break st,
            Ok(None) => {
                if started.elapsed() > Duration::from_secs(180) {
                    timed_out = true;
                    let _ = child.kill();
                    break child.wait().map_err(|e| e.to_string())?;
                }
                std::thread::sleep(Duration::from_micros(300));
            }
            Err(e) => return Err(e.to_string()),
        }
    };
    let stdout = reader.join().unwrap_or_default();
    let stderr = t_err.join().unwrap_or_default();
    use std::os::unix::process::ExitStatusExt;
    Ok(Some(CliOut { code: status.code(), signal: status.signal(), stdout, stderr, timed_out }))
}
