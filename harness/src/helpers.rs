//! Every direct use of the crate's public `js_op` helpers goes through this module, so that the harness still
//! builds - with `--cfg jlv_no_helpers`, tried by `./check` when the ordinary build fails - if a change to the
//! repository alters that API.  Without the helpers the helper comparisons are skipped (and counted), everything
//! that goes through `apply` is checked as usual.

use serde_json::Value;

#[cfg(not(jlv_no_helpers))]
pub const AVAILABLE: bool = true;
#[cfg(jlv_no_helpers)]
pub const AVAILABLE: bool = false;

#[cfg(not(jlv_no_helpers))]
mod imp {
    use jsonlogic_rs::js_op as h;
    use serde_json::{json, Value};

    pub fn abstract_eq_ne(a: &Value, b: &Value) -> Option<(bool, bool)> {
        Some((h::abstract_eq(a, b), h::abstract_ne(a, b)))
    }
    pub fn strict_eq_ne(a: &Value, b: &Value) -> Option<(bool, bool)> {
        Some((h::strict_eq(a, b), h::strict_ne(a, b)))
    }
    pub fn rel(op: &str, a: &Value, b: &Value) -> Option<bool> {
        Some(match op {
            "<" => h::abstract_lt(a, b),
            "<=" => h::abstract_lte(a, b),
            ">" => h::abstract_gt(a, b),
            _ => h::abstract_gte(a, b),
        })
    }
    pub fn string_conversions(strings: &[String]) {
        for s in strings {
            let _ = h::str_to_number(s);
            let _ = h::parse_float(&json!(format!("{}px", s)));
            let _ = h::to_number(&json!(s));
        }
        let _ = h::str_to_number("0x10");
    }
    pub fn all(a: &Value, b: &Value, list: &[Value], s: &str) -> Option<String> {
        let refs: Vec<&Value> = list.iter().collect();
        let _ = h::to_string(a);
        let _ = h::str_to_number(s);
        let _ = h::str_to_number(h::to_string(b));
        let _ = h::to_number(a);
        let _ = h::parse_float(a);
        let _ = h::abstract_eq(a, b);
        let _ = h::abstract_ne(a, b);
        let _ = h::abstract_lt(a, b);
        let _ = h::abstract_gt(a, b);
        let _ = h::abstract_lte(a, b);
        let _ = h::abstract_gte(a, b);
        let _ = h::strict_eq(a, b);
        let _ = h::strict_ne(a, b);
        let _ = h::strict_eq(a, a);
        let _ = h::abstract_plus(a, b);
        let _ = h::abstract_minus(a, b);
        let _ = h::abstract_div(a, b);
        let _ = h::abstract_mod(a, b);
        let _ = h::abstract_max(&refs);
        let _ = h::abstract_min(&refs);
        let _ = h::parse_float_add(&refs);
        let _ = h::parse_float_mul(&refs);
        let _ = h::to_negative(a);
        // the plus helper's result must be a JSON value that serialises
        Some(h::abstract_plus(a, b).to_string())
    }
}

#[cfg(jlv_no_helpers)]
mod imp {
    use serde_json::Value;
    pub fn abstract_eq_ne(_: &Value, _: &Value) -> Option<(bool, bool)> {
        None
    }
    pub fn strict_eq_ne(_: &Value, _: &Value) -> Option<(bool, bool)> {
        None
    }
    pub fn rel(_: &str, _: &Value, _: &Value) -> Option<bool> {
        None
    }
    pub fn string_conversions(_: &[String]) {}
    pub fn all(_: &Value, _: &Value, _: &[Value], _: &str) -> Option<String> {
        None
    }
}

pub fn abstract_eq_ne(a: &Value, b: &Value) -> Option<(bool, bool)> {
    imp::abstract_eq_ne(a, b)
}
pub fn strict_eq_ne(a: &Value, b: &Value) -> Option<(bool, bool)> {
    imp::strict_eq_ne(a, b)
}
pub fn rel(op: &str, a: &Value, b: &Value) -> Option<bool> {
    imp::rel(op, a, b)
}
pub fn string_conversions(strings: &[String]) {
    imp::string_conversions(strings)
}
pub fn all(a: &Value, b: &Value, list: &[Value], s: &str) -> Option<String> {
    imp::all(a, b, list, s)
}
