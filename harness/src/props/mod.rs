//! One module per property (DESIGN.md section 5).
pub mod common;

pub mod c01;
pub mod c02;
pub mod c03;
pub mod c04;
pub mod c05;
pub mod c06;
pub mod c07;
pub mod c08;
pub mod c09;
pub mod c10;
pub mod c11;
pub mod c12;
pub mod c13;
pub mod c14;
pub mod c15;
pub mod c16;
pub mod c17;
pub mod c18;

use crate::runner::Property;

pub fn get(id: &str) -> Option<Property> {
    match id {
        "C01" => Some(c01::property()),
        "C02" => Some(c02::property()),
        "C03" => Some(c03::property()),
        "C04" => Some(c04::property()),
        "C05" => Some(c05::property()),
        "C06" => Some(c06::property()),
        "C07" => Some(c07::property()),
        "C08" => Some(c08::property()),
        "C09" => Some(c09::property()),
        "C10" => Some(c10::property()),
        "C11" => Some(c11::property()),
        "C12" => Some(c12::property()),
        "C13" => Some(c13::property()),
        "C14" => Some(c14::property()),
        "C15" => Some(c15::property()),
        "C16" => Some(c16::property()),
        "C17" => Some(c17::property()),
        "C18" => Some(c18::property()),
        _ => None,
    }
}

pub const ALL: &[&str] = &["C07", "C08", "C09"];
