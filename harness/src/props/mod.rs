//! One module per property (DESIGN.md section 5).
pub mod common;

pub mod c07;
pub mod c08;
pub mod c09;

use crate::runner::Property;

pub fn get(id: &str) -> Option<Property> {
    match id {
        "C07" => Some(c07::property()),
        "C08" => Some(c08::property()),
        "C09" => Some(c09::property()),
        _ => None,
    }
}

pub const ALL: &[&str] = &["C07", "C08", "C09"];
