//! One module per property (DESIGN.md section 5).
pub mod common;

pub mod c01;
pub mod c02;
pub mod c03;
pub mod c04;
pub mod c05;
pub mod c06;
pub mod c07;
pub mod c08;
pub mod c09;
pub mod c10;
pub mod c11;
pub mod c12;
pub mod c13;
pub mod c14;
pub mod c15;
pub mod c16;
pub mod c17;
pub mod c18;
pub mod c19;

use crate::runner::Property;

pub fn get(id: &str) -> Option<Property> {
    match id {
        "C01" => Some(c01::property()),
        "C02" => Some(c02::property()),
        "C03" => Some(c03::property()),
        "C04" => Some(c04::property()),
        "C05" => Some(c05::property()),
        "C06" => Some(c06::property()),
        "C07" => Some(c07::property()),
        "C08" => Some(c08::property()),
        "C09" => Some(c09::property()),
        "C10" => Some(c10::property()),
        "C11" => Some(c11::property()),
        "C12" => Some(c12::property()),
        "C13" => Some(c13::property()),
        "C14" => Some(c14::property()),
        "C15" => Some(c15::property()),
        "C16" => Some(c16::property()),
        "C17" => Some(c17::property()),
        "C18" => Some(c18::property()),
        "C19" => Some(c19::property()),
        _ => None,
    }
}

pub const ALL: &[&str] = &["C07", "C08", "C09"];

/// Sub-checks run by the Python leg (py/check_py.py): (name, generator and oracle in words, non-triviality rule).
pub fn external_about(id: &str) -> Vec<(&'static str, &'static str, &'static str)> {
    match id {
        "C19" => vec![
            ("py_apply", "Hypothesis: recursive JSON-representable Python objects (None, bool, ints incl. +-2^63, 2^64, 10^400, finite floats, nan / inf, text incl. astral characters and lone surrogates, lists, dicts with operator keys) and rule-shaped objects, as rule and data of jsonlogic_rs.apply x data {omitted, positional, keyword} x serializer {omitted, json.dumps, compact sorted UTF-8} x deserializer {omitted, json.loads, parse_float=Decimal, identity}; run against the dev and the release build of the extension. Oracle: the library linked into oracle_server evaluates the texts the chosen serializer produces (omitted data = null); the return value must be type-exactly equal to deserializer(answer); a library error or unparsable text must raise ValueError and nothing else.", "an optional argument omitted, an error outcome, non-ASCII text, or a number outside the float-exact integer range."),
            ("py_scalar_history", "Hypothesis: sequences of 2-8 calls in one interpreter whose rule or data is a bare scalar from a pool of ==-equal but differently spelled values (True / 1 / 1.0, False / 0 / 0.0 / -0.0, \"1\", \"\", None ...), default or explicit serializer: every call must return exactly (type- and sign-strict) what the library gives for its own texts - the wrapper keeps nothing between calls.", "at least two calls in the sequence."),
            ("py_twin_history", "Hypothesis: a rule (14 fixed shapes and generated rules over 0 / 1 / True / False / 1.0 / 0.0 leaves) followed in the same interpreter by its numeric-tower twins - every bool / 0 / 1 / 0.0 / 1.0 leaf of rule and data replaced by an ==-equal value of another type: each call must return exactly what the library gives for its own texts.", "at least two calls."),
            ("py_concat_history", "Hypothesis: calls whose rule text followed by data text spell the same characters split at different points (apply(1, 23) then apply(12, 3); apply_serialized('2.5','6') then ('2','.56')): each must give what the library gives for its own two texts, malformed splits must raise ValueError.", "at least two calls."),
            ("py_environment", "Hypothesis over the environment value: 22 probes (one per operator family on operands where other languages' or implementations' semantics differ) called with the ordinary environment and with every ALL-CAPS identifier found in the wrapper's source and in the extension's bytes set (os.environ, hence visible to the extension) to one of 1 / true / 0 / strict / js / php / compat / debug / off / empty, Turkish locale, a far time zone: both calls must return exactly what the library gives.", "every case."),
            ("py_mutation_history", "Hypothesis: the same dict / list object passed as data or as rule again and again with in-place edits in between (items appended, keys added / removed / changed): each call must reflect the current content.", "at least one edit."),
            ("py_apply_serialized", "Hypothesis: JSON texts (json.dumps / compact / indented dumps of generated objects, truncations, 25 malformed texts, number spellings such as 1e0 / 12345678901234567890123) as rule and data of apply_serialized x data {omitted, positional, keyword} x deserializer {omitted, json.loads, parse_float=Decimal, identity}; same oracle; texts that cannot be encoded as UTF-8 must raise UnicodeEncodeError (a ValueError).", "every case."),
        ],
        "C01" => vec![("py_total", "Hypothesis: rule-shaped Python objects with extreme leaves (+-2^63, 2^64-1, -1e104, 1.7e308, multi-byte text) plus 16 known corner rules x 4 data through apply and apply_serialized, in the dev (overflow-checked) and release builds of the extension: only ValueError may escape; SystemError (a Rust panic crossing the boundary), any other exception type, or death of the interpreter is a violation.", "an extreme operand (64-bit boundary integer, exponent float, non-ASCII text) or a long rule.")],
        _ => vec![],
    }
}

/// thorough-tier only external sub-checks (coverage-guided campaigns)
pub fn external_about_thorough(id: &str) -> Vec<(&'static str, &'static str, &'static str)> {
    match id {
        "C01" => vec![("fz_total_campaign", "libFuzzer (cargo-fuzz, nightly, ASan + debug assertions + overflow checks) on fz_total: bytes -> rule text, newline, data text -> serde_json::from_str x2 -> apply, 16 forked jobs for 120 s from the committed seeds (repository examples, regression inputs) with an operator / extreme-literal dictionary, -max_len=512; oracle inside the target (panic, invalid result text; inputs over the model's work budget skipped, -timeout=60 s).", "distinct coverage-increasing inputs kept in the corpus.")],
        "C04" => vec![("fz_diff_campaign", "libFuzzer on fz_diff: bytes -> arbitrary::Unstructured -> (rule, data) over the operator tables and value corpus (operation-shaped data included) -> implementation vs the single-pass reference model, oracle inside the target; 16 forked jobs for 120 s.", "distinct coverage-increasing inputs kept in the corpus.")],
        "C07" | "C08" | "C09" | "C10" | "C11" | "C12" | "C15" | "C16" => {
            let name = match id { "C07" => "fz_eq_campaign", "C08" => "fz_seq_campaign", "C09" => "fz_rel_campaign", "C10" => "fz_arith_campaign", "C11" => "fz_path_campaign", "C12" => "fz_missing_campaign", "C15" => "fz_coll_campaign", _ => "fz_str_campaign" };
            vec![(name, "libFuzzer (cargo-fuzz, nightly, ASan + debug assertions + overflow checks) on this property's operator-family target: one application of the property's operators whose operands are fuzzer-written text lines (JSON if the line parses, a raw string otherwise; literal or through var) -> implementation vs reference model, oracle inside the target; 16 forked jobs for 120 s from the committed corpus with a dictionary of numeric-literal fragments, white-space characters and operator tokens.", "distinct coverage-increasing inputs kept in the corpus.")]
        }
        _ => vec![],
    }
}
