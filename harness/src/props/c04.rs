//! C04 - only rule text is executed: data and computed values are never re-interpreted.

use super::common::*;
use crate::gen::{self, rules};
use crate::model::{self, Res};
use crate::runner::{Obs, Property, Sub};
use proptest::collection::vec;
use proptest::prelude::*;
use proptest::sample::select;
use serde_json::{json, Map, Value};

pub const EAGER: &[&str] = &["==", "!=", "===", "!==", "!", "!!", "<", "<=", ">", ">=", "+", "-", "*", "/", "%", "max", "min", "merge", "in", "cat", "substr", "log"];

/// operation-shaped markers: an inert lookup next to a real `secret`, an always-erroring one, a tracing one ...
fn markers() -> gen::VS {
    prop_oneof![
        3 => Just(json!({"var": "secret"})),
        2 => Just(json!({"+": ["x"]})),
        2 => Just(json!({"log": "LEAK"})),
        1 => Just(json!({"var": ""})),
        1 => Just(json!({"var": "1.k"})),
        1 => Just(json!({"==": [1]})),
        1 => Just(json!({"if": [true, "T", "F"]})),
        1 => Just(json!({"cat": ["se", "cret"]})),
        1 => Just(json!({"+": [1, "2"]})),
        1 => Just(json!({"var": ["nope", {"var": "secret"}]})),
        1 => Just(json!({"!": [true]})),
        1 => Just(json!({"merge": [[1], [2]]})),
        1 => Just(json!({"missing": ["secret"]})),
        1 => Just(json!({"reduce": [[1, 2], {"+": [{"var": "current"}, {"var": "accumulator"}]}, 0]})),
    ]
    .boxed()
}

fn marked_values() -> gen::VS {
    prop_oneof![
        4 => markers(),
        2 => vec(prop_oneof![2 => markers(), 1 => gen::scalars()], 1..=3).prop_map(Value::Array),
        1 => markers().prop_map(|m| json!({"k": m, "leak": "leak"})),
        2 => gen::scalars(),
        1 => Just(json!("secret")),
        1 => Just(json!("leak")),
        1 => Just(json!(42)),
    ]
    .boxed()
}

/// data trees seeded with markers under the keys the templates read
fn marked_data() -> gen::VS {
    let obj = (marked_values(), vec(marked_values(), 0..=4), marked_values(), marked_values(), marked_values(), gen::scalars()).prop_map(|(x, xs, who, allowed, d, extra)| {
        json!({"x": x, "xs": xs, "secret": 42, "who": who, "allowed": [allowed, "guest", 42], "d": d, "k": "leak", "rows": [[{"+": [1, "x"]}, 2], [3, 4]], "extra": extra, "keys": ["secret", "nope"], "required": [{"log": "LEAK"}, {"var": "secret"}, "nope"]})
    });
    let arr = vec(marked_values(), 1..=4).prop_map(Value::Array);
    prop_oneof![5 => obj, 2 => arr, 1 => marked_values()].boxed()
}

fn probe() -> gen::VS {
    // predicates / expressions that would expose a re-interpreted element
    prop_oneof![
        Just(json!({"var": ""})),
        Just(json!({"===": [{"var": ""}, 42]})),
        Just(json!({"===": [{"var": ""}, "leak"]})),
        Just(json!({"!!": [{"var": ""}]})),
        Just(json!({"cat": [{"var": ""}]})),
        Just(json!({"in": [{"var": ""}, [42, "leak", "T", 3]]})),
        Just(json!({"var": "k"})),
        Just(json!(true)),
        Just(json!({"merge": [{"var": ""}]})),
    ]
    .boxed()
}

/// rules that route data through every value-carrying path
fn routing_rules() -> gen::VS {
    let src = || select(vec!["x", "xs", "who", "allowed", "d", "rows", "extra", "", "0", "1", "xs.0", "allowed.0", "rows.0", "required"]).prop_map(|k| json!({"var": k}));
    prop_oneof![
        // var: plain, default, computed key, default chosen
        src(),
        src().prop_map(|s| json!({"var": ["nope", s]})),
        src().prop_map(|s| json!({"var": [{"var": "nope2"}, s]})),
        markers().prop_map(|m| json!({"var": ["nope", m]})),
        src().prop_map(|s| json!({"var": [s]})),
        // control flow returning data
        (src(), src()).prop_map(|(a, b)| json!({"if": [a, b, "else"]})),
        (src(), src()).prop_map(|(a, b)| json!({"or": [a, b]})),
        (src(), src()).prop_map(|(a, b)| json!({"and": [a, b]})),
        // higher-order over data
        (src(), probe()).prop_map(|(c, p)| json!({"map": [c, p]})),
        (src(), probe()).prop_map(|(c, p)| json!({"filter": [c, p]})),
        (src(), src()).prop_map(|(c, z)| json!({"reduce": [c, {"var": "current"}, z]})),
        (src(), src()).prop_map(|(c, z)| json!({"reduce": [c, {"var": "accumulator"}, z]})),
        (src(), src()).prop_map(|(c, z)| json!({"reduce": [c, {"merge": [{"var": "accumulator"}, {"var": "current"}]}, z]})),
        (src(), probe()).prop_map(|(c, p)| json!({"all": [c, p]})),
        (src(), probe()).prop_map(|(c, p)| json!({"some": [c, p]})),
        (src(), probe()).prop_map(|(c, p)| json!({"none": [c, p]})),
        (src(), probe()).prop_map(|(c, p)| json!({"some": [{"merge": [c]}, p]})),
        (src(), probe()).prop_map(|(c, p)| json!({"all": [{"filter": [c, true]}, p]})),
        probe().prop_map(|p| json!({"map": [{"var": "rows"}, {"all": [{"var": ""}, p]}]})),
        probe().prop_map(|p| json!({"some": [{"var": ""}, p]})),
        probe().prop_map(|p| json!({"all": [{"var": []}, p]})),
        // eager operators fed with data
        (src(), src()).prop_map(|(a, b)| json!({"in": [a, b]})),
        (src(), src()).prop_map(|(a, b)| json!({"merge": [a, b]})),
        (src(), src()).prop_map(|(a, b)| json!({"cat": [a, b]})),
        (src(), src()).prop_map(|(a, b)| json!({"==": [a, b]})),
        (src(), src()).prop_map(|(a, b)| json!({"===": [a, b]})),
        src().prop_map(|a| json!({"!!": [a]})),
        src().prop_map(|a| json!({"log": [a]})),
        src().prop_map(|a| json!({"missing": a})),
        src().prop_map(|a| json!({"missing": [a]})),
        src().prop_map(|a| json!({"missing_some": [1, a]})),
        // computed from literals only: the *result* of an operator holds an operation-shaped value
        (markers(), probe()).prop_map(|(m, p)| json!({"some": [{"merge": [[m]]}, p]})),
        (markers(), probe()).prop_map(|(m, p)| json!({"all": [{"merge": [[m], [m]]}, p]})),
        (markers(), probe()).prop_map(|(m, p)| json!({"none": [{"filter": [[m], true]}, p]})),
        (markers(), probe()).prop_map(|(m, p)| json!({"map": [{"merge": [[m]]}, p]})),
        (markers(), probe()).prop_map(|(m, p)| json!({"some": [{"if": [true, [m]]}, p]})),
        markers().prop_map(|m| json!({"in": [42, {"merge": [[m]]}]})),
        // key lists that are data
        src().prop_map(|a| json!({"missing_some": [1, {"merge": [a]}]})),
        src().prop_map(|a| json!({"missing_some": [2, {"var": ["nope", a]}]})),
        markers().prop_map(|m| json!({"missing_some": [1, {"merge": [[m], ["secret"]]}]})),
        markers().prop_map(|m| json!({"missing": {"merge": [[m, "secret", "nope"]]}})),
        // two-stage compositions
        (src(), probe()).prop_map(|(c, p)| json!({"map": [{"filter": [c, true]}, p]})),
        (src(), probe()).prop_map(|(c, p)| json!({"filter": [{"map": [c, {"var": ""}]}, p]})),
        (src(), src()).prop_map(|(a, b)| json!({"var": [{"cat": ["no", "pe"]}, {"if": [a, b]}]})),
        (src(), probe()).prop_map(|(c, p)| json!({"some": [{"var": ["nope", c]}, p]})),
        (src(), src()).prop_map(|(a, b)| json!({"in": [a, {"merge": [b]}]})),
        (src(), src()).prop_map(|(a, b)| json!({"in": [{"if": [true, a]}, {"map": [b, {"var": ""}]}]})),
    ]
    .boxed()
}

fn mentions_log(v: &Value) -> bool {
    match v {
        Value::Object(o) => o.contains_key("log") || o.values().any(mentions_log),
        Value::Array(a) => a.iter().any(mentions_log),
        _ => false,
    }
}

/// Model-free, valid in every zone: a rule that contains no `log` anywhere cannot write anything; the data is full of
/// {"log":"LEAK"} markers, so any re-interpretation of data as logic shows up on stdout.
fn no_output_without_log(rule: &Value, data: &Value, lines: &[String]) -> Result<(), String> {
    if !mentions_log(rule) && !lines.is_empty() {
        return Err(format!("the rule contains no log operator, yet evaluation wrote {:?}: data was executed as logic: {}", lines, fmt_case(rule, data)));
    }
    Ok(())
}

fn check_routes(case: &Value, obs: &mut Obs) -> Result<(), String> {
    let (rule, data) = (rule_of(case), data_of(case));
    let d = diff(rule, data, obs, TraceMode::Multiset)?;
    no_output_without_log(rule, data, &d.lines)?;
    if d.ctx.inert_op_shaped > 0 && matches!(d.model, Res::Ok(_) | Res::Err) {
        let root = model::eval::as_operation(rule).map(|x| x.0).unwrap_or("literal");
        obs.nt(&format!("{}: operation-shaped value read or produced", root));
    } else {
        obs.class("no marker on the path");
    }
    Ok(())
}

fn gen_routes() -> BoxedStrategy<Value> {
    gen::case2(routing_rules(), marked_data())
}

fn gen_routes_general() -> BoxedStrategy<Value> {
    let leaf = prop_oneof![3 => gen::scalars(), 1 => markers(), 1 => vec(markers(), 1..=2).prop_map(Value::Array), 1 => vec(markers(), 1..=2).prop_map(|m| json!([m]))].boxed();
    let cfg = rules::Cfg::all_ops().leaf(leaf).keys(&["x", "xs", "who", "allowed", "d", "rows", "secret", "k", "extra", "0", "1"]).vars(8).poison(0).bad_arity(5);
    gen::case2(rules::rooted(cfg), marked_data())
}

/// apply({k:[a1..an]}, d) == apply({k:[{var:0}..{var:n-1}]}, [apply(a1,d) .. apply(an,d)])
fn check_substitution(case: &Value, obs: &mut Obs) -> Result<(), String> {
    let op = case["op"].as_str().unwrap_or("cat");
    let args: Vec<Value> = case["args"].as_array().cloned().unwrap_or_default();
    let data = &case["data"];
    let mut vals = Vec::with_capacity(args.len());
    let mut arg_lines: Vec<String> = vec![];
    for a in &args {
        let (v, lines) = run_traced(a, data, obs)?;
        match v {
            Some(v) => vals.push(v),
            None => {
                obs.class("an operand fails: law not applicable");
                return Ok(());
            }
        }
        arg_lines.extend(lines);
    }
    let direct_rule = opn(op, &args);
    let (direct, direct_lines) = run_traced(&direct_rule, data, obs)?;
    let refs: Vec<Value> = (0..args.len()).map(|i| json!({"var": i})).collect();
    let subst_rule = opn(op, &refs);
    let subst_data = Value::Array(vals.clone());
    let (subst, subst_lines) = run_traced(&subst_rule, &subst_data, obs)?;
    let same = match (&direct, &subst) {
        (Some(a), Some(b)) => model::identical(a, b),
        (None, None) => true,
        _ => false,
    };
    if !same {
        return Err(format!("substitution law broken for {}: {} on {} gave {:?} but with precomputed operands {} it gave {:?}", op, direct_rule, data, direct.map(|v| v.to_string()), subst_data, subst.map(|v| v.to_string())));
    }
    // evaluated at most once per use: the log lines of the whole are those of the operands (+ the operator's own if it is `log`)
    if direct.is_some() {
        let mut want = arg_lines.clone();
        let mut got = direct_lines.clone();
        if op == "log" {
            want.extend(subst_lines.clone());
        }
        want.sort();
        got.sort();
        if want != got {
            return Err(format!("operands were not evaluated exactly once: {} on {} logged {:?}, its operands alone log {:?}", direct_rule, data, direct_lines, arg_lines));
        }
    }
    let computed = args.iter().any(|a| model::eval::as_operation(a).is_some());
    let marker = vals.iter().any(model::eval::contains_op_shaped);
    if computed && marker {
        obs.nt(&format!("{}: computed operand yields an operation-shaped value", op));
    } else if computed && vals.iter().any(|v| v.is_array() || v.is_object()) {
        obs.nt(&format!("{}: computed container operand", op));
    } else if computed {
        obs.class("computed primitive operands");
    } else {
        obs.class("literal operands");
    }
    Ok(())
}

fn gen_substitution() -> BoxedStrategy<Value> {
    let leaf = prop_oneof![3 => gen::scalars(), 1 => markers(), 1 => gen::arrays()].boxed();
    let cfg = rules::Cfg::all_ops().leaf(leaf).keys(&["x", "xs", "who", "allowed", "d", "rows", "secret", "k", "extra"]).vars(8).poison(1).bad_arity(0).depth(2);
    let operand = prop_oneof![3 => rules::expr(cfg), 2 => routing_rules()];
    (select(EAGER.to_vec()), vec(operand, 0..=3), marked_data())
        .prop_map(|(op, mut args, data)| {
            let (lo, hi) = model::eval::op_info(op).map(|x| (x.2, x.3)).unwrap_or((0, 3));
            while args.len() < lo {
                args.push(json!({"var": "x"}));
            }
            args.truncate(hi.min(3));
            json!({"op": op, "args": args, "data": data})
        })
        .boxed()
}

/// wrap every operand expression at every level in a log: each evaluation prints its value, so the multiset of
/// lines counts evaluations ("at most once per use").
fn wrap_logs(v: &Value) -> Value {
    match model::eval::as_operation(v) {
        None => v.clone(),
        Some((name, operand)) => {
            let class = model::eval::op_info(name).map(|x| x.1);
            let wrap_arg = |a: &Value| -> Value {
                let inner = wrap_logs(a);
                if model::eval::as_operation(a).is_some() {
                    json!({"log": [inner]})
                } else {
                    inner
                }
            };
            let new_operand = match operand {
                Value::Array(items) => {
                    // literal arrays given as the collection of a higher-order operator stay literal
                    let keep_first = matches!(class, Some(model::eval::Class::Lazy)) && matches!(name, "map" | "filter" | "reduce");
                    Value::Array(items.iter().enumerate().map(|(i, a)| if keep_first && i == 0 && a.is_array() { a.clone() } else { wrap_arg(a) }).collect())
                }
                other => wrap_arg(other),
            };
            let mut m = Map::new();
            m.insert(name.to_string(), new_operand);
            Value::Object(m)
        }
    }
}

fn check_counts(case: &Value, obs: &mut Obs) -> Result<(), String> {
    let rule = if case["twins"].as_bool().unwrap_or(false) { rule_of(case).clone() } else { wrap_logs(rule_of(case)) };
    let data = data_of(case);
    let d = diff(&rule, data, obs, TraceMode::Multiset)?;
    if d.model.is_ok() && d.ctx.trace.len() >= 2 {
        obs.nt(if d.ctx.inert_op_shaped > 0 { "every operand traced, marker on the path" } else { "every operand traced" });
    } else {
        obs.class("fewer than two traced evaluations");
    }
    Ok(())
}

/// the same operand expression written twice (or three times) as siblings: each occurrence is a use and is evaluated
fn gen_twins() -> BoxedStrategy<Value> {
    let inner = prop_oneof![
        Just(json!({"if": [true, {"log": "m"}]})),
        Just(json!({"or": [0, {"log": {"var": "k"}}]})),
        Just(json!({"and": [1, {"log": [[1, 2]]}]})),
        Just(json!({"map": [[1, 2], {"log": {"var": ""}}]})),
        Just(json!({"reduce": [[1], {"log": "r"}, 0]})),
        Just(json!({"some": [[1], {"log": "s"}]})),
        Just(json!({"log": "direct"})),
        Just(json!({"cat": [{"if": [{"var": "k"}, {"log": "deep"}]}]})),
        Just(json!({"var": ["nope", {"or": [{"log": "d"}]}]})),
    ];
    (select(vec!["cat", "merge", "+", "==", "max", "in", "<", "missing", "var"]), inner, 2usize..=3, marked_data())
        .prop_map(|(op, x, n, data)| {
            let args: Vec<Value> = std::iter::repeat(x).take(n).collect();
            json!({"rule": opn(op, &args), "data": data, "twins": true})
        })
        .boxed()
}

fn gen_counts() -> BoxedStrategy<Value> {
    prop_oneof![2 => gen_routes(), 2 => gen_routes_general(), 1 => gen_twins()].boxed()
}

pub fn property() -> Property {
    Property {
        id: "C04",
        subs: vec![
            Sub {
                name: "routes",
                about: "data trees seeded with operation-shaped markers (an inert {\"var\":\"secret\"} next to a real secret, always-erroring {\"+\":[\"x\"]}, tracing {\"log\":\"LEAK\"}, arrays of them) and 34 rule templates routing data through var (key, default, computed key), if/and/or results, map/filter/reduce (collection, elements, initial value, accumulator), all/some/none over computed collections (var, whole-data var, merge, filter, var-default), merge, in, missing key lists and two-stage compositions; single-pass model on value and log multiset.",
                nontrivial: "the model saw an operation-shaped value read from data or produced on the way to the result.",
                strategy: Some(gen_routes),
                fixed: None,
                fixed_exhaustive: false,
                check: check_routes,
                quick: 200_000,
                thorough: 10_000_000,
                small_stack: false,
            },
            Sub {
                name: "routes_general",
                about: "the general rule grammar over all 35 operators with marker leaves and marked data.",
                nontrivial: "as routes.",
                strategy: Some(gen_routes_general),
                fixed: None,
                fixed_exhaustive: false,
                check: check_routes,
                quick: 100_000,
                thorough: 5_000_000,
                small_stack: false,
            },
            Sub {
                name: "fuzz_corpus_replay",
                about: "every committed seed and saved artifact of the libFuzzer target fz_diff (bytes -> arbitrary::Unstructured -> (rule, data) over the operator tables and value corpus -> implementation vs single-pass reference model, oracle inside the target) replayed through the target's own body; the thorough tier additionally runs the coverage-guided campaign.",
                nontrivial: "the decoded rule is evaluated and the model determines the outcome.",
                strategy: None,
                fixed: Some(|| fuzz_corpus_cases("fz_diff")),
                fixed_exhaustive: false,
                check: check_fuzz_case,
                quick: 0,
                thorough: 0,
                small_stack: false,
            },
            Sub {
                name: "substitution",
                about: "for each of the 22 eager operators and generated operand expressions a_i (all succeeding): apply({k:[a_1..a_n]},d) must equal apply({k:[{var:0}..{var:n-1}]},[apply(a_1,d)..]) and the log lines of the whole must be exactly those of its operands (model-free).",
                nontrivial: "some operand is computed and yields a container or an operation-shaped value.",
                strategy: Some(gen_substitution),
                fixed: None,
                fixed_exhaustive: false,
                check: check_substitution,
                quick: 100_000,
                thorough: 5_000_000,
                small_stack: false,
            },
            Sub {
                name: "evaluation_counts",
                about: "every operand expression at every level is wrapped in log, so the multiset of log lines counts evaluations; it must equal the model's (each operand evaluated exactly as often as single-pass semantics says).",
                nontrivial: "at least two traced evaluations.",
                strategy: Some(gen_counts),
                fixed: None,
                fixed_exhaustive: false,
                check: check_counts,
                quick: 100_000,
                thorough: 5_000_000,
                small_stack: false,
            },
        ],
        assumptions: vec!["U13: log lines are compared as multisets outside if/and/or chains", "U6: no trace comparison when the result is an error", "U14: whether var's default is evaluated when the key is present"],
    }
}
