//! C16 - cat concatenates JS string forms; substr slices by Unicode character.

use super::common::*;
use crate::gen::{self, rules};
use crate::model::{self, coerce, Res};
use crate::runner::{Obs, Property, Sub};
use proptest::collection::vec;
use proptest::prelude::*;
use proptest::sample::select;
use serde_json::{json, Value};

fn as_string(v: Option<Value>) -> Option<String> {
    v.and_then(|x| x.as_str().map(|s| s.to_string()))
}

fn substr_rule(s: &Value, start: &Value, len: Option<&Value>) -> Value {
    match len {
        Some(l) => opn("substr", &[s.clone(), start.clone(), l.clone()]),
        None => opn("substr", &[s.clone(), start.clone()]),
    }
}

fn is_subslice(hay: &[char], needle: &[char]) -> bool {
    needle.is_empty() || (needle.len() <= hay.len() && (0..=hay.len() - needle.len()).any(|i| hay[i..i + needle.len()] == needle[..]))
}

fn check_substr(case: &Value, obs: &mut Obs) -> Result<(), String> {
    let s = case["s"].as_str().unwrap_or("");
    let start = &case["start"];
    let len = if case["len"].is_null() { None } else { Some(&case["len"]) };
    let sv = json!(s);
    let rule = substr_rule(&sv, start, len);
    let d = diff(&rule, &Value::Null, obs, TraceMode::None)?;
    let chars: Vec<char> = s.chars().collect();
    // model-free laws
    if let crate::imp::Out::Ok(Value::String(out)) = &d.out {
        let oc: Vec<char> = out.chars().collect();
        if !is_subslice(&chars, &oc) {
            return Err(format!("substr result {:?} is not a contiguous run of characters of {:?} ({})", out, s, rule));
        }
        if let Some(l) = len.and_then(|l| l.as_i64()) {
            if l >= 0 && (oc.len() as i128) > l as i128 {
                return Err(format!("substr returned {} characters for length {} ({})", oc.len(), l, rule));
            }
        }
    } else if d.model.is_ok() {
        return Err(format!("substr did not return a string for {}", rule));
    }
    // through var as well
    let data = json!({"s": s, "i": start, "l": case["len"]});
    let vrule = substr_rule(&json!({"var": "s"}), &json!({"var": "i"}), len.map(|_| json!({"var": "l"})).as_ref());
    diff(&vrule, &data, obs, TraceMode::None)?;
    // split law for every i >= 0:  substr(s,0,i) ++ substr(s,i) == s
    if let Some(i) = start.as_i64() {
        if i >= 0 {
            let left = as_string(run(&substr_rule(&sv, &json!(0), Some(start)), &Value::Null, obs)?);
            let right = as_string(run(&substr_rule(&sv, start, None), &Value::Null, obs)?);
            match (left, right) {
                (Some(l), Some(r)) => {
                    if format!("{}{}", l, r) != s {
                        return Err(format!("substr(s,0,{i}) ++ substr(s,{i}) = {:?} ++ {:?} != {:?}", l, r, s, i = i));
                    }
                }
                other => return Err(format!("split law: substr failed on {:?} at {}: {:?}", s, i, other)),
            }
        }
    }
    let multibyte_cut = {
        let n = chars.len() as i128;
        let pos = |x: i128| -> usize { (if x >= 0 { x.min(n) } else { (n + x).max(0) }) as usize };
        let st = start.as_i64().map(|x| pos(x as i128)).unwrap_or(0);
        chars.iter().take(st.max(1)).any(|c| c.len_utf8() > 1) || (len.is_some() && chars.iter().any(|c| c.len_utf8() > 1))
    };
    let extreme = |v: &Value| v.as_i64().map(|x| x.unsigned_abs() > (1 << 31)).unwrap_or(true);
    if extreme(start) || len.map(extreme).unwrap_or(false) {
        obs.nt("64-bit extreme start/length");
    } else if multibyte_cut {
        obs.nt(if start.as_i64().unwrap_or(0) < 0 || len.and_then(|l| l.as_i64()).unwrap_or(0) < 0 { "multi-byte string, negative start/length" } else { "multi-byte string" });
    } else if start.as_i64().unwrap_or(0) < 0 || len.and_then(|l| l.as_i64()).unwrap_or(0) < 0 {
        obs.nt("negative start/length");
    } else {
        obs.class("ascii, non-negative");
    }
    Ok(())
}

const CUBE_ALPHABET: [char; 8] = ['a', 'b', 'é', 'ß', '日', '€', '😀', '𝄞'];

fn fixed_cube() -> Vec<Value> {
    // all strings of length <= 3 over an 8-symbol mixed-width alphabet x start -5..5 x length (-5..5 or absent)
    let mut strings: Vec<String> = vec![String::new()];
    let mut frontier: Vec<String> = vec![String::new()];
    for _ in 0..3 {
        let mut next = vec![];
        for s in &frontier {
            for c in CUBE_ALPHABET {
                let mut t = s.clone();
                t.push(c);
                next.push(t);
            }
        }
        strings.extend(next.iter().cloned());
        frontier = next;
    }
    let mut out = vec![];
    for s in &strings {
        for start in -5i64..=5 {
            out.push(json!({"s": s, "start": start, "len": null}));
            for len in -5i64..=5 {
                out.push(json!({"s": s, "start": start, "len": len}));
            }
        }
    }
    out
}

fn idx() -> gen::VS {
    prop_oneof![
        8 => (-10i64..=10).prop_map(gen::j),
        2 => select(vec![i64::MIN, i64::MIN + 1, i64::MAX, i64::MAX - 1, -2147483648, 2147483647, 2147483648, -4294967296, 4294967296, -4294967297]).prop_map(gen::j),
        1 => any::<i64>().prop_map(gen::j),
    ]
    .boxed()
}

fn gen_substr() -> BoxedStrategy<Value> {
    (gen::texts(8), idx(), prop_oneof![1 => Just(Value::Null), 3 => idx()]).prop_map(|(s, a, l)| json!({"s": s, "start": a, "len": l})).boxed()
}

fn check_cat(case: &Value, obs: &mut Obs) -> Result<(), String> {
    let items: Vec<Value> = case["items"].as_array().cloned().unwrap_or_default();
    let split = (case["split"].as_u64().unwrap_or(0) as usize).min(items.len());
    let refs: Vec<Value> = (0..items.len()).map(|i| json!({"var": i})).collect();
    let data = Value::Array(items.clone());
    let d = diff(&opn("cat", &refs), &data, obs, TraceMode::None)?;
    let whole = match &d.out {
        crate::imp::Out::Ok(Value::String(s)) => s.clone(),
        other => return Err(format!("cat did not return a string for operands {}: {}", data, other.short())),
    };
    // independent restatement of the string forms
    let expected: String = items.iter().map(coerce::str_form).collect();
    if whole != expected {
        return Err(format!("cat of {} should be {:?} got {:?}", data, expected, whole));
    }
    // literal operands
    if items.iter().all(|o| model::eval::as_operation(o).is_none()) {
        diff(&opn("cat", &items), &Value::Null, obs, TraceMode::None)?;
    }
    // piecewise law
    let left = opn("cat", &refs[..split]);
    let right = opn("cat", &refs[split..]);
    let pieces = as_string(run(&opn("cat", &[left, right]), &data, obs)?);
    if pieces.as_deref() != Some(whole.as_str()) {
        return Err(format!("cat in pieces {:?} differs from cat at once {:?} for operands {} split at {}", pieces, whole, data, split));
    }
    if items.iter().any(|v| matches!(v, Value::Array(_) | Value::Object(_))) {
        obs.nt("container operand");
    } else if items.iter().any(|v| v.is_number() || v.is_null() || v.is_boolean()) {
        obs.nt("non-string primitive operand");
    } else if items.iter().any(|v| v.as_str().map(|s| !s.is_ascii()).unwrap_or(false)) {
        obs.nt("non-ASCII strings");
    } else {
        obs.class("ascii strings");
    }
    Ok(())
}

fn gen_cat() -> BoxedStrategy<Value> {
    let nested = prop_oneof![
        Just(json!([1, [], 2])),
        Just(json!([[], []])),
        Just(json!([null, [null], [[null]]])),
        Just(json!([[1, [2, [3]]], "a"])),
        Just(json!([{}, [{}]])),
        Just(json!([1.5, -0.0, 1e21, 1e-7])),
        vec(gen::values(), 0..4).prop_map(Value::Array),
    ];
    (vec(prop_oneof![6 => gen::values(), 2 => nested, 2 => gen::numbers()], 0..=5), 0u64..6).prop_map(|(items, split)| json!({"items": items, "split": split})).boxed()
}

fn check_rules(case: &Value, obs: &mut Obs) -> Result<(), String> {
    let d = diff(rule_of(case), data_of(case), obs, TraceMode::Multiset)?;
    if matches!(d.model, Res::Ok(_) | Res::Err) {
        obs.nt("nested cat/substr rule");
    }
    Ok(())
}

fn gen_rules() -> BoxedStrategy<Value> {
    let leaf = prop_oneof![3 => gen::texts(6).prop_map(gen::j), 2 => gen::small_ints(), 1 => gen::values()].boxed();
    let cfg = rules::Cfg::new(&["cat", "substr", "substr", "var", "if", "merge"]).leaf(leaf).poison(0).bad_arity(10);
    gen::case2(rules::rooted(cfg), gen::data_docs())
}


/// accumulated state: see common::sweep
fn sweep_item(kind: u64, k: usize) -> (Value, Value) {
    match kind % 2 {
        0 => (json!({"cat": [format!("é{}", k), k, [k, null]]}), Value::Null),
        _ => (json!({"substr": [format!("日本{}語x", k), 1 - (k % 4) as i64, (k % 5) as i64 - 2]}), Value::Null),
    }
}

fn check_state_sweep(case: &Value, obs: &mut Obs) -> Result<(), String> {
    let w = case["w"].as_u64().unwrap_or(1) as usize;
    let kind = case["kind"].as_u64().unwrap_or(0);
    sweep(w, &|k| sweep_item(kind, k), obs)?;
    obs.nt(&format!("sweep kind {} W {}", kind, if w < 64 { "<64" } else if w < 128 { "64-127" } else { "128+" }));
    Ok(())
}

fn fixed_state_sweeps() -> Vec<Value> {
    sweep_cases(2, 300)
}


fn gen_per_element() -> BoxedStrategy<Value> {
    let cfg = rules::Cfg::new(&["cat", "substr", "substr", "var", "if", "merge"]).leaf(prop_oneof![3 => gen::texts(6).prop_map(gen::j), 2 => gen::small_ints(), 1 => gen::values()].boxed()).poison(0).bad_arity(0);
    per_element_cases(rules::rooted(cfg), prop_oneof![2 => gen::data_docs(), 1 => gen::texts(8).prop_map(gen::j)].boxed())
}


// sizes around 2^8, 2^12, 2^16 (common::SIZE_EDGES): a narrowed length type or a fixed buffer bites exactly there
const KINDS: u64 = 8;
fn check_sizes(case: &Value, obs: &mut Obs) -> Result<(), String> {
    let n = case["n"].as_u64().unwrap_or(1) as usize;
    let k = case["k"].as_u64().unwrap_or(0);
    let s = sized_string(n);
    let data = json!({"s": s});
    let vs = json!({"var": "s"});
    let ni = n as i64;
    let (rule, data) = match k {
        0 => (json!({"substr": [vs, ni - 1]}), data),
        1 => (json!({"substr": [s, -1]}), Value::Null),
        2 => (json!({"substr": [vs, 1, -1]}), data),
        3 => (json!({"cat": [{"substr": [vs.clone(), 0, ni - 1]}, {"substr": [vs, ni - 1]}]}), data),
        4 => (json!({"cat": [vs, "x", 1]}), data),
        5 => (json!({"cat": vec![json!("a"); n]}), Value::Null),
        6 => (json!({"cat": [sized_array(n)]}), Value::Null),
        _ => (json!({"substr": [vs, -ni, ni]}), data),
    };
    size_case(&rule, &data, obs, &format!("size kind {} n {}", k, if n < 1000 { "~2^8" } else if n < 10000 { "~2^12" } else { "~2^16" }))
}

fn fixed_sizes() -> Vec<Value> {
    let mut out = vec![];
    for n in SIZE_EDGES {
        for k in 0..KINDS {
            out.push(json!({"n": n, "k": k}));
        }
    }
    out
}


// ------------------------------------------------------------------------------------------------ positions beyond i64

/// Positions in [2^63, 2^64) are JSON integers that do not fit the signed 64-bit type (zone U4: the statement speaks of
/// integers, the implementation rejects them).  Whatever an implementation does with them, it must not *wrap*: the
/// outcome is an error or what the statement says about a start / length that large - skip everything, take everything.
fn check_substr_unsigned(case: &Value, obs: &mut Obs) -> Result<(), String> {
    let s = case["s"].as_str().unwrap_or("");
    let start = &case["start"];
    let len = &case["len"];
    let rule = if len.is_null() { json!({"substr": [s, start]}) } else { json!({"substr": [s, start, len]}) };
    let chars: Vec<char> = s.chars().collect();
    let n = chars.len() as i128;
    let as_i128 = |v: &Value| -> i128 { v.as_u64().map(|u| u as i128).or_else(|| v.as_i64().map(|i| i as i128)).unwrap_or(0) };
    let i = as_i128(start);
    let st = if i >= 0 { i.min(n) } else { (n + i).max(0) };
    let en = if len.is_null() {
        n
    } else {
        let l = as_i128(len);
        if l >= 0 { n.min(st + l) } else { (n + l).max(0) }
    };
    let clamped: String = if en <= st { String::new() } else { chars[st as usize..en as usize].iter().collect() };
    match run(&rule, &Value::Null, obs)? {
        None => obs.nt("rejected (an error)"),
        Some(v) => {
            if v != json!(clamped) {
                return Err(format!("{} gives {} - neither an error nor the clamped slice {:?} (a position of 2^63 or more must not wrap to a negative one)", rule, v, clamped));
            }
            obs.nt("clamped");
        }
    }
    Ok(())
}

fn gen_substr_unsigned() -> BoxedStrategy<Value> {
    let big = prop_oneof![Just(9223372036854775808u64), Just(18446744073709551615u64), Just(18446744073709551614u64), Just(9223372036854775809u64), (9223372036854775808u64..=18446744073709551615u64)];
    let small = prop_oneof![(-6i64..=6).prop_map(|i| json!(i)), Just(Value::Null)];
    prop_oneof![
        (gen::texts(6), big.clone(), small.clone()).prop_map(|(s, b, l)| json!({"s": s, "start": b, "len": l})),
        (gen::texts(6), (-6i64..=6), big.clone()).prop_map(|(s, i, b)| json!({"s": s, "start": i, "len": b})),
        (gen::texts(6), big.clone(), big).prop_map(|(s, a, b)| json!({"s": s, "start": a, "len": b})),
    ]
    .boxed()
}

pub fn property() -> Property {
    Property {
        id: "C16",
        subs: vec![
            Sub {
                name: "substr_unsigned",
                about: "substr with a start or length in [2^63, 2^64) - a JSON integer beyond the signed 64-bit range (zone U4, rejected by the unchanged tree): the outcome must be an error or exactly what the statement says about a position that large (skip everything / take everything); a value that wrapped to a negative position is neither.",
                nontrivial: "every case.",
                strategy: Some(gen_substr_unsigned),
                fixed: None,
                fixed_exhaustive: false,
                check: check_substr_unsigned,
                quick: 20_000,
                thorough: 1_000_000,
                small_stack: false,
            },
            Sub {
                name: "size_boundaries",
                about: "strings of exactly 255 / 256 / 257, 4095 / 4096 / 4097 and 65535 / 65536 / 65537 characters (1- to 4-byte characters mixed) through substr (last character by positive and negative start, all but the ends, the whole by negative start, the split law) and cat (string + suffix, n operands, an n-element array), against the reference model: a length kept in a narrower type or a fixed buffer bites exactly at these sizes.",
                nontrivial: "every case.",
                strategy: None,
                fixed: Some(fixed_sizes),
                fixed_exhaustive: true,
                check: check_sizes,
                quick: 0,
                thorough: 0,
                small_stack: false,
            },
            Sub {
                name: "fuzz_corpus_replay",
                about: "every committed corpus input and saved artifact of the libFuzzer target fz_str - one application of cat / substr whose operands are written by the fuzzer as text lines (a line that parses as JSON is that value, any other line is a raw string such as ` 0x1F ` or `12px`; operands literal or through var) - replayed through the target's own body against the reference model; the committed corpus is the coverage-distinct set distilled from campaigns on the unchanged tree, so each input reaches a different piece of the implementation. The thorough tier additionally runs the coverage-guided campaign.",
                nontrivial: "the decoded rule is evaluated and the model determines the outcome.",
                strategy: None,
                fixed: Some(|| fuzz_corpus_cases("fz_str")),
                fixed_exhaustive: false,
                check: check_fuzz_case,
                quick: 0,
                thorough: 0,
                small_stack: false,
            },
            Sub {
                name: "per_element",
                about: "this property's operators inside an expression used as the body of map / filter / all / some / none over 2-5 different elements: element by element the outcome must be what the expression gives on that element alone (model-free per-element law); catches anything the shared evaluation machinery remembers from one element to the next.",
                nontrivial: "the expression gives different results on different elements.",
                strategy: Some(gen_per_element),
                fixed: None,
                fixed_exhaustive: false,
                check: per_element_law,
                quick: 40_000,
                thorough: 2_000_000,
                small_stack: false,
            },
            Sub {
                name: "state_sweep",
                about: "accumulated state: for every W in 1..300 and each kind of keyed work of this operator family (distinct cat operand lists, distinct non-ASCII substr subjects), W hot items are evaluated twice, then a new item, the hot set again, another new item, and everything in reverse; every call against the reference model - a cache, pool or table with any capacity up to 300 is driven exactly over its boundary.",
                nontrivial: "every case.",
                strategy: None,
                fixed: Some(fixed_state_sweeps),
                fixed_exhaustive: false,
                check: check_state_sweep,
                quick: 0,
                thorough: 0,
                small_stack: false,
            },
            Sub {
                name: "substr_cube",
                about: "every string of length <= 3 over {a b é ß 日 € 😀 𝄞} x start -5..5 x length (-5..5 or absent): character-vector model, result is a contiguous run, at most `length` characters, split law, literal and var routes.",
                nontrivial: "a multi-byte character at or before the cut, or a negative start/length.",
                strategy: None,
                fixed: Some(fixed_cube),
                fixed_exhaustive: true,
                check: check_substr,
                quick: 0,
                thorough: 0,
                small_stack: false,
            },
            Sub {
                name: "substr_generated",
                about: "generated strings over ASCII / 2- / 3- / 4-byte characters (length 0..8), start/length in -10..10 plus the 64-bit extremes and random i64; same oracles.",
                nontrivial: "as substr_cube, plus any 64-bit extreme.",
                strategy: Some(gen_substr),
                fixed: None,
                fixed_exhaustive: false,
                check: check_substr,
                quick: 150_000,
                thorough: 8_000_000,
                small_stack: false,
            },
            Sub {
                name: "cat",
                about: "generated operand lists of arbitrary JSON values (nested arrays with empty / null members, objects, number spellings): result equals the concatenated string forms (model and an independent restatement), literal and var routes, and cat in two pieces equals cat at once.",
                nontrivial: "a container or non-string primitive operand, or non-ASCII text.",
                strategy: Some(gen_cat),
                fixed: None,
                fixed_exhaustive: false,
                check: check_cat,
                quick: 120_000,
                thorough: 6_000_000,
                small_stack: false,
            },
            Sub {
                name: "rules_model",
                about: "generated nested rules over cat substr var if merge against the model.",
                nontrivial: "the model determines a value or an error.",
                strategy: Some(gen_rules),
                fixed: None,
                fixed_exhaustive: false,
                check: check_rules,
                quick: 60_000,
                thorough: 3_000_000,
                small_stack: false,
            },
        ],
        assumptions: vec!["U9: the decimal text of a number is serde_json's", "U4: substr on a non-string subject or a non-integer start/length is not determined by the property"],
    }
}
