//! C19 - the Python module adds only JSON (de)serialisation around the library.
//! The whole check is the Hypothesis harness in /verif/py/check_py.py (spawned by the orchestrator, see
//! `external.rs`); the oracle is `oracle_server` (the library linked directly).

use crate::runner::Property;

pub fn property() -> Property {
    Property {
        id: "C19",
        subs: vec![],
        assumptions: vec![
            "CPython's json module and Hypothesis are trusted; the oracle is the Rust library linked directly into oracle_server",
            "JSON-representable means dict (str keys) / list / str / int / float / bool / None; whatever text the chosen serializer produces is what must be evaluated",
            "a Python str that cannot be encoded as UTF-8 (lone surrogates left raw by a custom serializer) must be refused with UnicodeEncodeError, which is a ValueError",
        ],
    }
}
