//! C03 - every operator enforces its arity; {op: x} means exactly {op: [x]}.

use super::common::*;
use crate::gen::{self, rules};
use crate::model::{self, eval::arity_ok, Res};
use crate::runner::{Obs, Property, Sub};
use proptest::collection::vec;
use proptest::prelude::*;
use proptest::sample::select;
use serde_json::{json, Value};

/// Operands for which operator `op` succeeds with `n` operands (n in its documented set), variant `j`.
fn benign(op: &str, n: usize, j: usize) -> Vec<Value> {
    let nums = [json!(3), json!(7), json!(2), json!(10), json!(1.5), json!(4), json!(9)];
    let strs = [json!("a"), json!("b"), json!("héllo"), json!("1"), json!("zz"), json!(""), json!("x")];
    let rot = |pool: &[Value], k: usize| pool[(k + j) % pool.len()].clone();
    let mut v: Vec<Value> = match op {
        "in" => vec![rot(&nums, 0), json!([3, 7, 2, "a"])],
        "substr" => vec![json!("héllo wörld"), json!(1 + (j % 3) as i64), json!(2)],
        "var" => vec![json!(["a", "b", "nope", "b.1"][j % 4]), json!("dflt")],
        "missing" => (0..n).map(|k| rot(&strs, k)).collect(),
        "missing_some" => vec![json!(1 + (j % 2)), json!(["a", "zz", "b"])],
        "map" | "filter" | "all" | "some" | "none" => vec![json!([1, 2, 3]), json!({">": [{"var": ""}, (j % 3) as i64]})],
        "reduce" => vec![json!([1, 2, 3]), json!({"+": [{"var": "current"}, {"var": "accumulator"}]}), json!(j as i64)],
        "cat" | "merge" | "if" | "?:" | "and" | "or" | "log" | "!" | "!!" | "==" | "!=" | "===" | "!==" => (0..n).map(|k| if (k + j) % 2 == 0 { rot(&nums, k) } else { rot(&strs, k) }).collect(),
        _ => (0..n).map(|k| rot(&nums, k)).collect(),
    };
    v.truncate(n);
    v
}

fn documented_counts(op: &str) -> Vec<usize> {
    (0..=6).filter(|n| arity_ok(op, *n)).collect()
}

/// Operand list of length n for the grid: benign for a documented count; otherwise the benign list of the
/// largest documented count below n (else the smallest documented count), truncated or extended to n.
fn grid_operands(op: &str, n: usize, j: usize) -> Vec<Value> {
    if arity_ok(op, n) {
        return benign(op, n, j);
    }
    let docs = documented_counts(op);
    let base = docs.iter().filter(|d| **d <= n).max().or(docs.iter().min()).cloned().unwrap_or(0);
    let mut v = benign(op, base, j);
    v.truncate(n);
    let extras = [json!(5), json!("extra"), json!(0), json!(6), json!(8), json!(1)];
    let mut k = 0;
    while v.len() < n {
        v.push(extras[(k + j) % extras.len()].clone());
        k += 1;
    }
    v
}

/// operand counts far outside the grid: a count must be compared as a number, not modulo anything
fn fixed_large_counts() -> Vec<Value> {
    let mut out = vec![];
    for (op, _, _, _) in model::eval::OPS {
        for n in [7usize, 16, 17, 255, 256, 257, 258, 259, 512, 513, 514, 65536, 65537, 65538, 65539] {
            let base = grid_operands(op, 3, n % 8);
            let mut args: Vec<Value> = base.clone();
            let mut k = 0;
            while args.len() < n {
                args.push(match *op {
                    "cat" | "merge" | "if" | "?:" | "and" | "or" | "missing" => json!("p"),
                    _ => json!(((k % 5) + 1) as i64),
                });
                k += 1;
            }
            args.truncate(n);
            out.push(json!({"op": op, "n": n, "args": args}));
        }
    }
    out
}

const GRID_DATA: &str = r#"{"a": 1, "b": [10, 20, 30], "zz": null}"#;

fn fixed_grid() -> Vec<Value> {
    let mut out = vec![];
    for (op, _, _, _) in model::eval::OPS {
        for n in 0..=6usize {
            for j in 0..8usize {
                out.push(json!({"op": op, "n": n, "args": grid_operands(op, n, j), "grid": true}));
            }
        }
    }
    out
}

fn check_arity(case: &Value, obs: &mut Obs) -> Result<(), String> {
    let op = case["op"].as_str().unwrap_or("+");
    let args: Vec<Value> = case["args"].as_array().cloned().unwrap_or_default();
    let n = args.len();
    let data: Value = if case["data"].is_null() { serde_json::from_str(GRID_DATA).unwrap() } else { case["data"].clone() };
    let rule = opn(op, &args);
    let documented = arity_ok(op, n);
    let d = diff(&rule, &data, obs, TraceMode::Multiset)?;
    if !documented {
        // rejection must not depend on the operands
        if let crate::imp::Out::Ok(v) = &d.out {
            return Err(format!("{} accepted {} operands (not a documented count) and returned {} for {}", op, n, v, fmt_case(&rule, &data)));
        }
        // nested as an operand of an eager operator the whole rule must fail
        let nested = json!({"cat": ["a", rule.clone()]});
        if let Some(v) = run(&nested, &data, obs)? {
            return Err(format!("an operation with a wrong operand count inside an eager operator did not fail: {} gave {}", nested, v));
        }
        // ... and wherever else an expression is evaluated: as the element expression / predicate of a higher-order
        // operator over a non-empty collection, as a selected branch, as an and / or operand, as an initial value
        for (what, outer) in [
            ("map expression", json!({"map": [[1, 2], rule.clone()]})),
            ("filter predicate", json!({"filter": [[1], rule.clone()]})),
            ("reduce expression", json!({"reduce": [[1], rule.clone(), 0]})),
            ("reduce initial value", json!({"reduce": [[], {"var": "current"}, rule.clone()]})),
            ("all predicate", json!({"all": [[1], rule.clone()]})),
            ("some predicate", json!({"some": [[1], rule.clone()]})),
            ("selected if branch", json!({"if": [true, rule.clone(), 0]})),
            ("if condition", json!({"if": [rule.clone(), 1, 0]})),
            ("and operand", json!({"and": [1, rule.clone()]})),
            ("or operand", json!({"or": [0, rule.clone()]})),
            ("literal-array element of some", json!({"some": [[rule.clone()], true]})),
            ("var default", json!({"var": ["no-such-key", rule.clone()]})),
            ("bracket-less operand of !", json!({"!": rule.clone()})),
            ("bracket-less operand of !!", json!({"!!": rule.clone()})),
            ("bracket-less operand of log", json!({"log": rule.clone()})),
            ("bracket-less operand of -", json!({"-": rule.clone()})),
            ("operand of ! inside !", json!({"!": {"!": [rule.clone()]}})),
            ("bracket-less operand of cat", json!({"cat": rule.clone()})),
        ] {
            if let Some(v) = run(&outer, &data, obs)? {
                return Err(format!("an operation with a wrong operand count evaluated as {} did not fail: {} gave {}", what, outer, v));
            }
        }
        // decisive when the same operator succeeds on these operands under a documented count
        let docs = documented_counts(op);
        let decisive = docs.iter().any(|dn| {
            let mut a2 = args.clone();
            a2.truncate(*dn);
            while a2.len() < *dn {
                a2.push(json!(1));
            }
            matches!(model::eval(&opn(op, &a2), &data).0, Res::Ok(_))
        });
        if decisive {
            obs.nt(&format!("{} x {}: rejected, operands fine under a documented count", op, n));
        } else {
            obs.class(&format!("{} x {}: rejected", op, n));
        }
    } else {
        match &d.model {
            Res::Ok(_) => obs.nt(&format!("{} x {}: accepted", op, n)),
            Res::Err => obs.class(&format!("{} x {}: documented count, operand error", op, n)),
            Res::Unspec(_) => obs.class(&format!("{} x {}: unspecified", op, n)),
        }
        if case["grid"].as_bool().unwrap_or(false) && !d.model.is_ok() {
            return Err(format!("oracle_broken: the benign operand pool is not benign for {} with {} operands: {}", op, n, rule));
        }
    }
    Ok(())
}

fn wild_operand() -> gen::VS {
    prop_oneof![4 => gen::values(), 2 => rules::poison(), 2 => rules::var_leaf(gen::KEY_POOL), 1 => rules::expr(rules::Cfg::all_ops().depth(1))].boxed()
}

fn gen_arity() -> BoxedStrategy<Value> {
    (select(gen::OP_NAMES.to_vec()), 0usize..=6, 0usize..64, vec(wild_operand(), 6), any::<bool>(), gen::data_docs())
        .prop_map(|(op, n, j, wild, use_wild, data)| {
            let args: Vec<Value> = if arity_ok(op, n) || !use_wild { grid_operands(op, n, j) } else { wild.into_iter().take(n).collect() };
            json!({"op": op, "n": n, "args": args, "data": if use_wild { data } else { Value::Null }})
        })
        .boxed()
}

/// {k: x} must behave exactly like {k: [x]} for every non-array x.
fn check_bare(case: &Value, obs: &mut Obs) -> Result<(), String> {
    let op = case["op"].as_str().unwrap_or("!");
    let x = &case["x"];
    let data = &case["data"];
    if x.is_array() {
        return Err("oracle_broken: bracket-less operand must not be an array".into());
    }
    let bare = op_raw(op, x.clone());
    let bracketed = opn(op, &[x.clone()]);
    let a = crate::imp::apply_traced(&bare, data);
    let b = crate::imp::apply_traced(&bracketed, data);
    obs.evals += 2;
    sanity(&a, &bare, data)?;
    sanity(&b, &bracketed, data)?;
    let same = match (&a.out, &b.out) {
        (crate::imp::Out::Ok(p), crate::imp::Out::Ok(q)) => model::identical(p, q) && a.lines == b.lines,
        (crate::imp::Out::Err(_), crate::imp::Out::Err(_)) => true,
        _ => false,
    };
    if !same {
        return Err(format!("{} -> {} {:?} but {} -> {} {:?} on data {}", bare, a.out.short(), a.lines, bracketed, b.out.short(), b.lines, data));
    }
    // and both agree with the model of the bracketed form
    diff(&bare, data, obs, TraceMode::Multiset)?;
    // the two spellings are the same operation wherever an expression is evaluated, not only at the top of a rule
    // (a position that parses its expressions on a path of its own could treat a bracket-less operand differently)
    for (what, wrap) in [
        ("operand of cat", (|r: Value| json!({"cat": ["a", r]})) as fn(Value) -> Value),
        ("literal-array element of some", |r| json!({"some": [[r], true]})),
        ("literal-array element of all", |r| json!({"all": [[0, r], {"var": ""}]})),
        ("literal-array element of none", |r| json!({"none": [[r, 1], {"!": [{"var": ""}]}]})),
        ("map expression", |r| json!({"map": [[1, 2], r]})),
        ("filter predicate", |r| json!({"filter": [[1], r]})),
        ("reduce initial value", |r| json!({"reduce": [[], {"var": "current"}, r]})),
        ("selected if branch", |r| json!({"if": [true, r, 0]})),
        ("or operand", |r| json!({"or": [0, r]})),
        ("var default", |r| json!({"var": ["no-such-key", r]})),
        ("element of merge", |r| json!({"merge": [[1], r]})),
    ] {
        let (ra, rb) = (wrap(bare.clone()), wrap(bracketed.clone()));
        let a = crate::imp::apply_traced(&ra, data);
        let b = crate::imp::apply_traced(&rb, data);
        obs.evals += 2;
        sanity(&a, &ra, data)?;
        sanity(&b, &rb, data)?;
        let same = match (&a.out, &b.out) {
            (crate::imp::Out::Ok(p), crate::imp::Out::Ok(q)) => model::identical(p, q) && a.lines == b.lines,
            (crate::imp::Out::Err(_), crate::imp::Out::Err(_)) => true,
            _ => false,
        };
        if !same {
            return Err(format!("as {}: {} -> {} {:?} but {} -> {} {:?} on data {}", what, ra, a.out.short(), a.lines, rb, b.out.short(), b.lines, data));
        }
    }
    if arity_ok(op, 1) {
        obs.nt(&format!("{}: accepts one operand, x is {}", op, type_class(x)));
    } else {
        obs.class(&format!("{}: both spellings are arity errors", op));
    }
    Ok(())
}

fn bare_operands() -> gen::VS {
    prop_oneof![
        4 => gen::scalars(),
        1 => Just(Value::Null),
        2 => gen::inert_objects(),
        2 => rules::var_leaf(gen::KEY_POOL),
        1 => rules::poison(),
        2 => rules::expr(rules::Cfg::all_ops().depth(1)),
    ]
    .prop_filter("non-array", |v| !v.is_array())
    .boxed()
}

fn gen_bare() -> BoxedStrategy<Value> {
    (select(gen::OP_NAMES.to_vec()), bare_operands(), gen::data_docs()).prop_map(|(op, x, d)| json!({"op": op, "x": x, "data": d})).boxed()
}

fn fixed_bare() -> Vec<Value> {
    let xs = vec![
        Value::Null, json!(true), json!(false), json!(0), json!(1), json!(-1.5), json!(""), json!("a"), json!("b.1"), json!({}), json!({"a": 1, "b": 2}), json!({"var": "a"}), json!({"var": "b"}), json!({"cat": ["a", "b"]}),
        json!({"+": ["x"]}), json!({"log": "L"}), json!({"merge": [[1], [2]]}), json!("héllo"), json!(3),
    ];
    let data = json!({"a": "A", "b": [10, 20, 30], "": "empty"});
    let mut out = vec![];
    for (op, _, _, _) in model::eval::OPS {
        for x in &xs {
            out.push(json!({"op": op, "x": x, "data": data}));
        }
    }
    out
}

pub fn property() -> Property {
    Property {
        id: "C03",
        subs: vec![
            Sub {
                name: "arity_grid",
                about: "the complete grid 35 operators x operand counts 0..6 x 8 operand variants; for documented counts the operands come from a per-operator benign pool (the model says Ok, checked), for other counts from the same pool truncated / extended, so only the count can explain a rejection; accepted iff documented (table transcribed from the statement); results equal the model; a wrong-arity operation fails the whole rule wherever it is evaluated (operand of an eager operator, element expression / predicate / initial value of a higher-order operator, selected branch, and / or operand, var default).",
                nontrivial: "documented count and the model returns a value, or undocumented count whose operands succeed under a documented count (arity-decisive).",
                strategy: None,
                fixed: Some(fixed_grid),
                fixed_exhaustive: true,
                check: check_arity,
                quick: 0,
                thorough: 0,
                small_stack: false,
            },
            Sub {
                name: "arity_large_counts",
                about: "35 operators x operand counts 7, 16, 17, 255-259, 512-514, 65536-65539 (benign operands): accepted iff the count is documented (only the variadic operators), results equal the model.",
                nontrivial: "as arity_grid.",
                strategy: None,
                fixed: Some(fixed_large_counts),
                fixed_exhaustive: false,
                check: check_arity,
                quick: 0,
                thorough: 0,
                small_stack: false,
            },
            Sub {
                name: "arity_generated",
                about: "generated (operator, count 0..6, operands benign or wild: arbitrary values, poison, var references, nested expressions; data): rejection must not depend on the operands.",
                nontrivial: "as arity_grid.",
                strategy: Some(gen_arity),
                fixed: None,
                fixed_exhaustive: false,
                check: check_arity,
                quick: 80_000,
                thorough: 4_000_000,
                small_stack: false,
            },
            Sub {
                name: "bracketless_grid",
                about: "35 operators x 19 non-array operands (null, booleans, numbers, strings, inert objects, operations such as {\"var\":\"a\"}, erroring and logging operations): {k:x} and {k:[x]} give the identical value and log lines, or both fail - at the top of the rule and in eleven evaluated positions (operand of cat / merge, literal-array element of some / all / none, map expression, filter predicate, reduce initial value, selected if branch, or operand, var default).",
                nontrivial: "the operator accepts one operand (the two spellings are not both arity errors).",
                strategy: None,
                fixed: Some(fixed_bare),
                fixed_exhaustive: true,
                check: check_bare,
                quick: 0,
                thorough: 0,
                small_stack: false,
            },
            Sub {
                name: "bracketless_generated",
                about: "generated (operator, non-array operand from the corpus incl. objects that are operations, data): same law, same eleven positions.",
                nontrivial: "as bracketless_grid.",
                strategy: Some(gen_bare),
                fixed: None,
                fixed_exhaustive: false,
                check: check_bare,
                quick: 100_000,
                thorough: 5_000_000,
                small_stack: false,
            },
        ],
        assumptions: vec!["documented operand counts are those in the statement of C03", "U7: whether a never-applied element expression with a wrong count is validated is not determined"],
    }
}
