//! C08 - `===` / `!==`: primitives by type and value, containers never equal.

use super::common::*;
use crate::corpus;
use crate::gen::{self, rules};
use crate::model::coerce::{self, Tri};
use crate::runner::{Obs, Property, Sub};
use proptest::prelude::*;
use serde_json::{json, Value};

fn bool_of(v: Option<Value>) -> Option<bool> {
    v.and_then(|x| x.as_bool())
}

fn seq_all_routes(a: &Value, b: &Value, want: Option<bool>, obs: &mut Obs) -> Result<bool, String> {
    let data = json!({"a": a, "b": b});
    let va = json!({"var": "a"});
    let vb = json!({"var": "b"});
    let got = bool_of(run(&op2("===", &va, &vb), &data, obs)?).ok_or_else(|| format!("=== did not return a boolean for {} , {}", a, b))?;
    if let Some(w) = want {
        if got != w {
            return Err(format!("{} === {} should be {}, got {} (operands via var)", a, b, w, got));
        }
    }
    let literal_ok = crate::model::eval::as_operation(a).is_none() && crate::model::eval::as_operation(b).is_none();
    if literal_ok {
        let lit = bool_of(run(&op2("===", a, b), &Value::Null, obs)?);
        if lit != Some(got) {
            return Err(format!("{} === {} gives {:?} with literal operands but {} through var", a, b, lit, got));
        }
    }
    let sym = bool_of(run(&op2("===", &vb, &va), &data, obs)?);
    if sym != Some(got) {
        return Err(format!("=== is not symmetric: ({} , {}) -> {} but swapped -> {:?}", a, b, got, sym));
    }
    let ne = bool_of(run(&op2("!==", &va, &vb), &data, obs)?);
    if ne != Some(!got) {
        return Err(format!("!== is not the negation of ===: {} === {} is {} but !== is {:?}", a, b, got, ne));
    }
    if got {
        let eq = bool_of(run(&op2("==", &va, &vb), &data, obs)?);
        if eq != Some(true) {
            return Err(format!("=== holds but == does not for {} , {}", a, b));
        }
    }
    // helpers on distinct instances (clones): the documented same-reference shortcut is not exercised
    let (a2, b2) = (a.clone(), b.clone());
    let h = crate::imp::guarded(|| crate::helpers::strict_eq_ne(&a2, &b2)).map_err(|m| format!("js_op::strict_eq/ne panicked ({}) on {} , {}", m, a, b))?;
    obs.evals += 2;
    if let Some(h) = h {
        if h.0 != got || h.1 == got {
            return Err(format!("js_op::strict_eq/ne ({}, {}) disagree with the operator ({}) on {} , {}", h.0, h.1, got, a, b));
        }
    }
    Ok(got)
}

fn classify(a: &Value, b: &Value, obs: &mut Obs) {
    let (ca, cb) = (type_class(a), type_class(b));
    if ca == cb {
        match a {
            Value::Number(x) => {
                let y = b.as_number().unwrap();
                if x.is_f64() != y.is_f64() {
                    obs.nt("numbers, different spellings");
                } else {
                    obs.nt("numbers");
                }
            }
            Value::Array(_) | Value::Object(_) => obs.nt(&format!("containers {}", ca)),
            _ => obs.nt(&format!("same class {}", ca)),
        }
    } else if matches!(a, Value::Array(_) | Value::Object(_)) || matches!(b, Value::Array(_) | Value::Object(_)) {
        obs.nt("container vs other");
    } else {
        obs.class(&format!("{}~{}", ca.min(cb), ca.max(cb)));
    }
}

fn check_corpus(case: &Value, obs: &mut Obs) -> Result<(), String> {
    let (a, b) = (&case["a"], &case["b"]);
    classify(a, b, obs);
    seq_all_routes(a, b, case["seq"].as_bool(), obs).map(|_| ())
}

fn fixed_corpus() -> Vec<Value> {
    corpus::load_pairs(&corpus::root()).unwrap_or_default().into_iter().map(|r| json!({"a": r.a, "b": r.b, "seq": r.seq})).collect()
}

fn check_pair(case: &Value, obs: &mut Obs) -> Result<(), String> {
    let (a, b) = (&case["a"], &case["b"]);
    classify(a, b, obs);
    let want = match coerce::strict_eq(a, b) {
        Tri::True => Some(true),
        Tri::False => Some(false),
        Tri::Unspec(z) => {
            obs.skip(z);
            None
        }
    };
    seq_all_routes(a, b, want, obs).map(|_| ())
}

fn gen_pairs() -> BoxedStrategy<Value> {
    prop_oneof![
        3 => gen::related_pairs(),
        // number against number: spellings, neighbours, tiny and huge magnitudes
        2 => (gen::numbers(), gen::numbers()),
        1 => gen::numbers().prop_map(|a| { let b = a.as_f64().map(|x| gen::f(f64::from_bits(x.to_bits().wrapping_add(1)))).filter(|v| !v.is_null()).unwrap_or(json!(0)); (a, b) }),
        1 => gen::values().prop_map(|a| (a.clone(), a)),
    ]
    .prop_map(|(a, b)| json!({"a": a, "b": b}))
    .boxed()
}

/// Both operands are the *same* var reference: evaluation yields distinct instances, so containers stay unequal.
fn check_same_ref(case: &Value, obs: &mut Obs) -> Result<(), String> {
    let v = &case["v"];
    let data = json!({"a": v});
    let va = json!({"var": "a"});
    let want = match coerce::strict_eq(v, v) {
        Tri::True => true,
        Tri::False => false,
        Tri::Unspec(z) => {
            obs.skip(z);
            return Ok(());
        }
    };
    if matches!(v, Value::Array(_) | Value::Object(_)) {
        obs.nt("container against itself through the same var");
    } else {
        obs.nt("primitive against itself through the same var");
    }
    expect_bool(&op2("===", &va, &va), &data, want, obs, "=== of a datum with itself")?;
    expect_bool(&op2("!==", &va, &va), &data, !want, obs, "!== of a datum with itself")?;
    // the whole data against itself
    expect_bool(&op2("===", &json!({"var": ""}), &json!({"var": ""})), v, want, obs, "=== of the whole data with itself")?;
    // a literal container written twice in the rule
    if crate::model::eval::as_operation(v).is_none() {
        expect_bool(&op2("===", v, v), &Value::Null, want, obs, "=== of two identical literals")?;
    }
    Ok(())
}

fn gen_same_ref() -> BoxedStrategy<Value> {
    gen::values().prop_map(|v| json!({"v": v})).boxed()
}

fn check_rules(case: &Value, obs: &mut Obs) -> Result<(), String> {
    let d = diff(rule_of(case), data_of(case), obs, TraceMode::Multiset)?;
    if d.model.is_ok() && d.ctx.ops_executed & 0b1100 != 0 {
        obs.nt("nested ===/!== rule");
    }
    Ok(())
}

fn gen_rules() -> BoxedStrategy<Value> {
    let cfg = rules::Cfg::new(&["===", "!==", "===", "!==", "+", "merge", "cat", "if", "var", "-"]).leaf(gen::cmp_values()).poison(0).bad_arity(10);
    gen::case2(rules::rooted(cfg), gen::data_docs())
}


/// accumulated state: see common::sweep
fn sweep_item(kind: u64, k: usize) -> (Value, Value) {
    match kind % 2 {
        0 => (json!({"===": [format!("s{}", k), {"var": "s"}]}), json!({"s": format!("s{}", k)})),
        _ => (json!({"!==": [k, {"+": [format!("{}", k), 0]}]}), Value::Null),
    }
}

fn check_state_sweep(case: &Value, obs: &mut Obs) -> Result<(), String> {
    let w = case["w"].as_u64().unwrap_or(1) as usize;
    let kind = case["kind"].as_u64().unwrap_or(0);
    sweep(w, &|k| sweep_item(kind, k), obs)?;
    obs.nt(&format!("sweep kind {} W {}", kind, if w < 64 { "<64" } else if w < 128 { "64-127" } else { "128+" }));
    Ok(())
}

fn fixed_state_sweeps() -> Vec<Value> {
    sweep_cases(2, 300)
}


fn gen_per_element() -> BoxedStrategy<Value> {
    let cfg = rules::Cfg::new(&["===", "!==", "===", "!==", "+", "merge", "cat", "if", "var", "-"]).leaf(gen::cmp_values()).poison(0).bad_arity(0);
    per_element_cases(rules::rooted(cfg), prop_oneof![2 => gen::data_docs(), 2 => super::c13::twin_scalars()].boxed())
}

pub fn property() -> Property {
    Property {
        id: "C08",
        subs: vec![
            Sub {
                name: "fuzz_corpus_replay",
                about: "every committed corpus input and saved artifact of the libFuzzer target fz_seq - one application of === / !== whose operands are written by the fuzzer as text lines (a line that parses as JSON is that value, any other line is a raw string such as ` 0x1F ` or `12px`; operands literal or through var) - replayed through the target's own body against the reference model; the committed corpus is the coverage-distinct set distilled from campaigns on the unchanged tree, so each input reaches a different piece of the implementation. The thorough tier additionally runs the coverage-guided campaign.",
                nontrivial: "the decoded rule is evaluated and the model determines the outcome.",
                strategy: None,
                fixed: Some(|| fuzz_corpus_cases("fz_seq")),
                fixed_exhaustive: false,
                check: check_fuzz_case,
                quick: 0,
                thorough: 0,
                small_stack: false,
            },
            Sub {
                name: "per_element",
                about: "this property's operators inside an expression used as the body of map / filter / all / some / none over 2-5 different elements: element by element the outcome must be what the expression gives on that element alone (model-free per-element law); catches anything the shared evaluation machinery remembers from one element to the next.",
                nontrivial: "the expression gives different results on different elements.",
                strategy: Some(gen_per_element),
                fixed: None,
                fixed_exhaustive: false,
                check: per_element_law,
                quick: 40_000,
                thorough: 2_000_000,
                small_stack: false,
            },
            Sub {
                name: "state_sweep",
                about: "accumulated state: for every W in 1..300 and each kind of keyed work of this operator family (distinct strings against data, integers against computed numbers), W hot items are evaluated twice, then a new item, the hot set again, another new item, and everything in reverse; every call against the reference model - a cache, pool or table with any capacity up to 300 is driven exactly over its boundary.",
                nontrivial: "every case.",
                strategy: None,
                fixed: Some(fixed_state_sweeps),
                fixed_exhaustive: false,
                check: check_state_sweep,
                quick: 0,
                thorough: 0,
                small_stack: false,
            },
            Sub {
                name: "js_corpus",
                about: "every ordered pair of 158 JSON values with the === bit recorded from JavaScript (fresh instances): literal, via var, swapped, negated, === implies ==, js_op::strict_eq/ne on clones.",
                nontrivial: "operands of the same type class, or a container on either side.",
                strategy: None,
                fixed: Some(fixed_corpus),
                fixed_exhaustive: true,
                check: check_corpus,
                quick: 0,
                thorough: 0,
                small_stack: false,
            },
            Sub {
                name: "pairs_model",
                about: "generated pairs (related pairs, number x number incl. spellings 1 / 1.0, adjacent doubles, tiny and huge magnitudes, value against its clone) against the strict-equality model.",
                nontrivial: "same type class, number pair, or a container on either side.",
                strategy: Some(gen_pairs),
                fixed: None,
                fixed_exhaustive: false,
                check: check_pair,
                quick: 200_000,
                thorough: 10_000_000,
                small_stack: false,
            },
            Sub {
                name: "same_reference",
                about: "both operands are the same {\"var\":k} (or the whole data, or one literal written twice): containers must still be unequal, primitives equal.",
                nontrivial: "every case (container or primitive compared with itself).",
                strategy: Some(gen_same_ref),
                fixed: None,
                fixed_exhaustive: false,
                check: check_same_ref,
                quick: 40_000,
                thorough: 2_000_000,
                small_stack: false,
            },
            Sub {
                name: "rules_model",
                about: "generated nested rules over === !== + - merge cat if var against the reference model.",
                nontrivial: "the model determines the result and a === or !== was executed.",
                strategy: Some(gen_rules),
                fixed: None,
                fixed_exhaustive: false,
                check: check_rules,
                quick: 60_000,
                thorough: 3_000_000,
                small_stack: false,
            },
        ],
        assumptions: vec!["the recorded JavaScript corpus is ground truth", "numbers are compared as IEEE doubles (the quantifier says ES_strict_eq)", "js_op::strict_eq's documented same-reference shortcut is not reachable through apply and is not treated as a failure"],
    }
}
