//! C09 - relational operators follow ECMAScript, incl. the three-operand "between" form.

use super::common::*;
use crate::corpus;
use crate::gen::{self, rules};
use crate::model::coerce::{self, Tri};
use crate::runner::{Obs, Property, Sub};
use proptest::prelude::*;
use proptest::sample::select;
use serde_json::{json, Value};

const OPS: [&str; 4] = ["<", "<=", ">", ">="];

fn bool_of(v: Option<Value>) -> Option<bool> {
    v.and_then(|x| x.as_bool())
}

fn model_bit(op: &str, a: &Value, b: &Value) -> Tri {
    match op {
        "<" => coerce::relational(a, b, true),
        "<=" => coerce::relational(a, b, false),
        ">" => coerce::relational(b, a, true),
        _ => coerce::relational(b, a, false),
    }
}

/// None when the harness was built without the helper API (helpers.rs)
fn helper(op: &str, a: &Value, b: &Value) -> Result<Option<bool>, String> {
    let (a2, b2) = (a.clone(), b.clone());
    crate::imp::guarded(|| crate::helpers::rel(op, &a2, &b2)).map_err(|m| format!("js_op helper for {} panicked ({}) on {} , {}", op, m, a, b))
}

/// The four operators on (a, b): against `want[i]` where given, literal vs var, mirror laws, helpers.
fn rel_all_routes(a: &Value, b: &Value, want: [Option<bool>; 4], obs: &mut Obs) -> Result<[bool; 4], String> {
    let data = json!({"a": a, "b": b});
    let va = json!({"var": "a"});
    let vb = json!({"var": "b"});
    let mut got = [false; 4];
    let literal_ok = crate::model::eval::as_operation(a).is_none() && crate::model::eval::as_operation(b).is_none();
    for (i, op) in OPS.iter().enumerate() {
        got[i] = bool_of(run(&op2(op, &va, &vb), &data, obs)?).ok_or_else(|| format!("{} did not return a boolean for {} , {}", op, a, b))?;
        if let Some(w) = want[i] {
            if got[i] != w {
                return Err(format!("{} {} {} should be {} (ECMAScript), got {} (operands via var)", a, op, b, w, got[i]));
            }
        }
        if literal_ok {
            let lit = bool_of(run(&op2(op, a, b), &Value::Null, obs)?);
            if lit != Some(got[i]) {
                return Err(format!("{} {} {} gives {:?} with literal operands but {} through var", a, op, b, lit, got[i]));
            }
        }
        let h = helper(op, a, b)?;
        obs.evals += 1;
        if let Some(h) = h {
            if h != got[i] {
                return Err(format!("js_op helper for {} gives {} but the operator gives {} on {} , {}", op, h, got[i], a, b));
            }
        }
    }
    // a > b == b < a ; a >= b == b <= a
    let lt_swapped = bool_of(run(&op2("<", &vb, &va), &data, obs)?);
    if lt_swapped != Some(got[2]) {
        return Err(format!("a > b ({}) differs from b < a ({:?}) for a = {} b = {}", got[2], lt_swapped, a, b));
    }
    let le_swapped = bool_of(run(&op2("<=", &vb, &va), &data, obs)?);
    if le_swapped != Some(got[3]) {
        return Err(format!("a >= b ({}) differs from b <= a ({:?}) for a = {} b = {}", got[3], le_swapped, a, b));
    }
    Ok(got)
}

fn is_numeric_string(v: &Value) -> bool {
    v.as_str().map(|s| !s.is_empty() && coerce::string_to_number(s).is_finite()).unwrap_or(false)
}

fn classify(a: &Value, b: &Value, lt: Tri, le: Tri, obs: &mut Obs) {
    let (ca, cb) = (type_class(a), type_class(b));
    if is_numeric_string(a) && is_numeric_string(b) {
        obs.nt("two numeric-looking strings");
    } else if ca != cb {
        obs.nt(&format!("mixed {}~{}", ca.min(cb), ca.max(cb)));
    } else if lt == Tri::False && le == Tri::False {
        obs.nt(&format!("incomparable or greater, {}", ca));
    } else if matches!(a, Value::Array(_) | Value::Object(_)) {
        obs.nt(&format!("containers {}", ca));
    } else {
        obs.class(&format!("same class {}", ca));
    }
}

fn check_corpus(case: &Value, obs: &mut Obs) -> Result<(), String> {
    let (a, b) = (&case["a"], &case["b"]);
    let want = [case["lt"].as_bool(), case["le"].as_bool(), case["gt"].as_bool(), case["ge"].as_bool()];
    classify(a, b, coerce::relational(a, b, true), coerce::relational(a, b, false), obs);
    rel_all_routes(a, b, want, obs).map(|_| ())
}

fn fixed_corpus() -> Vec<Value> {
    corpus::load_pairs(&corpus::root()).unwrap_or_default().into_iter().map(|r| json!({"a": r.a, "b": r.b, "lt": r.lt, "le": r.le, "gt": r.gt, "ge": r.ge})).collect()
}

fn tri_opt(t: Tri, obs: &mut Obs) -> Option<bool> {
    match t {
        Tri::True => Some(true),
        Tri::False => Some(false),
        Tri::Unspec(z) => {
            obs.skip(z);
            None
        }
    }
}

fn check_pair(case: &Value, obs: &mut Obs) -> Result<(), String> {
    let (a, b) = (&case["a"], &case["b"]);
    let bits: Vec<Tri> = OPS.iter().map(|op| model_bit(op, a, b)).collect();
    classify(a, b, bits[0], bits[1], obs);
    let want = [tri_opt(bits[0], obs), tri_opt(bits[1], obs), tri_opt(bits[2], obs), tri_opt(bits[3], obs)];
    rel_all_routes(a, b, want, obs).map(|_| ())
}

/// two strings with a common prefix whose first difference pits planes against each other (astral vs U+E000..FFFF is
/// where UTF-16 order and code-point order disagree), also wrapped in arrays
fn order_pairs() -> BoxedStrategy<(Value, Value)> {
    let pool = vec!['a', 'z', '~', '\u{7F}', '\u{80}', 'é', '\u{7FF}', '\u{800}', '日', '\u{D7FF}', '\u{E000}', '\u{F600}', '\u{FF21}', '\u{FFFD}', '\u{FFFF}', '\u{10000}', '\u{10041}', '😀', '\u{10FFFF}'];
    (gen::texts(3), select(pool.clone()), select(pool), gen::texts(2), gen::texts(2), 0u8..4)
        .prop_map(|(prefix, x, y, ta, tb, wrap)| {
            let a = format!("{}{}{}", prefix, x, ta);
            let b = format!("{}{}{}", prefix, y, tb);
            match wrap {
                0 | 1 => (json!(a), json!(b)),
                2 => (json!([a]), json!([b])),
                _ => (json!(["a", a]), json!(["a", b])),
            }
        })
        .boxed()
}

fn gen_pairs() -> BoxedStrategy<Value> {
    prop_oneof![
        4 => gen::related_pairs(),
        1 => order_pairs(),
        1 => (gen::strings(), gen::strings()),
        1 => (gen::numbers(), gen::strings()),
        1 => (gen::num_strings().prop_map(gen::j), gen::num_strings().prop_map(gen::j)),
    ]
    .prop_map(|(a, b)| json!({"a": a, "b": b}))
    .boxed()
}

/// JS-recorded numeric strings against numbers: s <= Number(s) <= s, 1e308 < "Infinity", NaN strings compare false.
fn check_tonumber(case: &Value, obs: &mut Obs) -> Result<(), String> {
    let s = &case["s"];
    let n = corpus::bits(case["n"].as_str().unwrap_or(""));
    if n.is_nan() {
        obs.nt("non-numeric string vs number");
        for probe in [json!(0), json!(-1e308), json!(1e308)] {
            rel_all_routes(s, &probe, [Some(false); 4], obs)?;
            rel_all_routes(&probe, s, [Some(false); 4], obs)?;
        }
    } else if n.is_finite() {
        obs.nt("numeric string vs its number");
        rel_all_routes(s, &gen::f(n), [Some(false), Some(true), Some(false), Some(true)], obs)?;
        let bigger = if n == 0.0 { 5e-324 } else if n > 0.0 { f64::from_bits(n.to_bits() + 1) } else { f64::from_bits(n.to_bits() - 1) };
        if bigger.is_finite() {
            rel_all_routes(s, &gen::f(bigger), [Some(true), Some(true), Some(false), Some(false)], obs)?;
        }
    } else {
        obs.nt("infinite numeric string vs number");
        let big = if n > 0.0 { json!(1.7976931348623157e308) } else { json!(-1.7976931348623157e308) };
        let want = if n > 0.0 { [Some(false), Some(false), Some(true), Some(true)] } else { [Some(true), Some(true), Some(false), Some(false)] };
        rel_all_routes(s, &big, want, obs)?;
    }
    Ok(())
}

fn fixed_tonumber() -> Vec<Value> {
    std::fs::read_to_string(corpus::root().join("corpus/js_tonumber.jsonl")).unwrap_or_default().lines().filter_map(|l| serde_json::from_str::<Value>(l).ok()).collect()
}

/// Three operands: conjunction of the adjacent pairs, for all four operators.
fn check_triple(case: &Value, obs: &mut Obs) -> Result<(), String> {
    let (a, b, c) = (&case["a"], &case["b"], &case["c"]);
    let data = json!({"a": a, "b": b, "c": c});
    let (va, vb, vc) = (json!({"var": "a"}), json!({"var": "b"}), json!({"var": "c"}));
    let mut differing = false;
    for op in OPS.iter() {
        let three = bool_of(run(&opn(op, &[va.clone(), vb.clone(), vc.clone()]), &data, obs)?).ok_or_else(|| format!("{} with three operands did not return a boolean on {} {} {}", op, a, b, c))?;
        let first = bool_of(run(&op2(op, &va, &vb), &data, obs)?).ok_or("no boolean")?;
        let second = bool_of(run(&op2(op, &vb, &vc), &data, obs)?).ok_or("no boolean")?;
        if three != (first && second) {
            return Err(format!("{{\"{}\":[a,b,c]}} = {} but a{}b = {} and b{}c = {} for a = {} b = {} c = {}", op, three, op, first, op, second, a, b, c));
        }
        if first != second {
            differing = true;
        }
        // and against the model
        let m = match (model_bit(op, a, b), model_bit(op, b, c)) {
            (Tri::False, _) | (_, Tri::False) => Some(false),
            (Tri::True, Tri::True) => Some(true),
            _ => None,
        };
        if let Some(w) = m {
            if three != w {
                return Err(format!("{{\"{}\":[{},{},{}]}} should be {} got {}", op, a, b, c, w, three));
            }
        } else {
            obs.skip("U11");
        }
        let literal_ok = [a, b, c].iter().all(|v| crate::model::eval::as_operation(v).is_none());
        if literal_ok {
            let lit = bool_of(run(&opn(op, &[a.clone(), b.clone(), c.clone()]), &Value::Null, obs)?);
            if lit != Some(three) {
                return Err(format!("three-operand {} differs between literal ({:?}) and var ({}) operands: {} {} {}", op, lit, three, a, b, c));
            }
        }
    }
    if differing {
        obs.nt("triple whose two conjuncts differ");
    } else if type_class(a) != type_class(b) || type_class(b) != type_class(c) {
        obs.nt("mixed-class triple");
    } else {
        obs.class("uniform triple");
    }
    Ok(())
}

fn gen_triples() -> BoxedStrategy<Value> {
    prop_oneof![
        3 => (gen::cmp_values(), gen::cmp_values(), gen::cmp_values()),
        2 => (gen::related_pairs(), gen::cmp_values()).prop_map(|((a, b), c)| (a, b, c)),
        2 => (gen::cmp_values(), gen::related_pairs()).prop_map(|(a, (b, c))| (a, b, c)),
        2 => (gen::small_ints(), gen::num_strings().prop_map(gen::j), gen::num_strings().prop_map(gen::j)),
        1 => (gen::num_strings().prop_map(gen::j), gen::num_strings().prop_map(gen::j), gen::small_ints()),
    ]
    .prop_map(|(a, b, c)| json!({"a": a, "b": b, "c": c}))
    .boxed()
}

fn check_rules(case: &Value, obs: &mut Obs) -> Result<(), String> {
    let d = diff(rule_of(case), data_of(case), obs, TraceMode::Multiset)?;
    if d.model.is_ok() && d.ctx.ops_executed & 0b11_1100_0000 != 0 {
        obs.nt("nested relational rule");
    }
    Ok(())
}

fn gen_rules() -> BoxedStrategy<Value> {
    let cfg = rules::Cfg::new(&["<", "<=", ">", ">=", "<", "<=", ">", ">=", "cat", "merge", "if", "var", "+", "!", "!!"]).leaf(gen::cmp_values()).poison(0).bad_arity(10);
    gen::case2(rules::rooted(cfg), gen::data_docs())
}


/// accumulated state: see common::sweep
fn sweep_item(kind: u64, k: usize) -> (Value, Value) {
    match kind % 3 {
        0 => (json!({"<": [format!(" {} ", k), k + 1]}), Value::Null),
        1 => (json!({"<=": [format!("k{}", k), format!("k{}", k + 1), "l"]}), Value::Null),
        _ => (json!({">": [format!("{}e0", k + 1), {"var": "n"}]}), json!({"n": k})),
    }
}

fn check_state_sweep(case: &Value, obs: &mut Obs) -> Result<(), String> {
    let w = case["w"].as_u64().unwrap_or(1) as usize;
    let kind = case["kind"].as_u64().unwrap_or(0);
    sweep(w, &|k| sweep_item(kind, k), obs)?;
    obs.nt(&format!("sweep kind {} W {}", kind, if w < 64 { "<64" } else if w < 128 { "64-127" } else { "128+" }));
    Ok(())
}

fn fixed_state_sweeps() -> Vec<Value> {
    sweep_cases(3, 300)
}


fn gen_per_element() -> BoxedStrategy<Value> {
    let cfg = rules::Cfg::new(&["<", "<=", ">", ">=", "<", "<=", ">", ">=", "cat", "if", "var", "+", "!"]).leaf(gen::cmp_values()).poison(0).bad_arity(0);
    per_element_cases(rules::rooted(cfg), gen::data_docs())
}

pub fn property() -> Property {
    Property {
        id: "C09",
        subs: vec![
            Sub {
                name: "fuzz_corpus_replay",
                about: "every committed corpus input and saved artifact of the libFuzzer target fz_rel - one application of < <= > >= (2 or 3 operands) whose operands are written by the fuzzer as text lines (a line that parses as JSON is that value, any other line is a raw string such as ` 0x1F ` or `12px`; operands literal or through var) - replayed through the target's own body against the reference model; the committed corpus is the coverage-distinct set distilled from campaigns on the unchanged tree, so each input reaches a different piece of the implementation. The thorough tier additionally runs the coverage-guided campaign.",
                nontrivial: "the decoded rule is evaluated and the model determines the outcome.",
                strategy: None,
                fixed: Some(|| fuzz_corpus_cases("fz_rel")),
                fixed_exhaustive: false,
                check: check_fuzz_case,
                quick: 0,
                thorough: 0,
                small_stack: false,
            },
            Sub {
                name: "per_element",
                about: "this property's operators inside an expression used as the body of map / filter / all / some / none over 2-5 different elements: element by element the outcome must be what the expression gives on that element alone (model-free per-element law); catches anything the shared evaluation machinery remembers from one element to the next.",
                nontrivial: "the expression gives different results on different elements.",
                strategy: Some(gen_per_element),
                fixed: None,
                fixed_exhaustive: false,
                check: per_element_law,
                quick: 40_000,
                thorough: 2_000_000,
                small_stack: false,
            },
            Sub {
                name: "state_sweep",
                about: "accumulated state: for every W in 1..300 and each kind of keyed work of this operator family (padded numeric strings against numbers, string triples, exponent strings against data), W hot items are evaluated twice, then a new item, the hot set again, another new item, and everything in reverse; every call against the reference model - a cache, pool or table with any capacity up to 300 is driven exactly over its boundary.",
                nontrivial: "every case.",
                strategy: None,
                fixed: Some(fixed_state_sweeps),
                fixed_exhaustive: false,
                check: check_state_sweep,
                quick: 0,
                thorough: 0,
                small_stack: false,
            },
            Sub {
                name: "js_corpus",
                about: "every ordered pair of 158 JSON values with the < <= > >= bits recorded from JavaScript (dropped where UTF-16 and code-point order differ): literal, via var, mirror laws a>b == b<a and a>=b == b<=a, js_op helpers.",
                nontrivial: "mixed type classes, two numeric-looking strings, containers, or a pair that is neither < nor <=.",
                strategy: None,
                fixed: Some(fixed_corpus),
                fixed_exhaustive: true,
                check: check_corpus,
                quick: 0,
                thorough: 0,
                small_stack: false,
            },
            Sub {
                name: "js_tonumber",
                about: "62k numeric / near-numeric strings with Number(s) from JavaScript compared with numbers: s<=n<=s, s < next double, NaN strings compare false both ways, +-Infinity beyond +-1.79e308.",
                nontrivial: "every case (string against number).",
                strategy: None,
                fixed: Some(fixed_tonumber),
                fixed_exhaustive: true,
                check: check_tonumber,
                quick: 0,
                thorough: 0,
                small_stack: false,
            },
            Sub {
                name: "pairs_model",
                about: "generated pairs (related pairs, string x string, number x string, numeric string x numeric string) against the ECMA-262 relational model, all four operators, all routes.",
                nontrivial: "as js_corpus.",
                strategy: Some(gen_pairs),
                fixed: None,
                fixed_exhaustive: false,
                check: check_pair,
                quick: 150_000,
                thorough: 8_000_000,
                small_stack: false,
            },
            Sub {
                name: "triples",
                about: "generated triples: {op:[a,b,c]} == (a op b) and (b op c) for all four operators, literal and var routes, and against the model.",
                nontrivial: "the two adjacent comparisons differ, or the triple mixes type classes.",
                strategy: Some(gen_triples),
                fixed: None,
                fixed_exhaustive: false,
                check: check_triple,
                quick: 60_000,
                thorough: 3_000_000,
                small_stack: false,
            },
            Sub {
                name: "rules_model",
                about: "generated nested rules over < <= > >= cat merge if var + against the reference model.",
                nontrivial: "the model determines the result and a relational operator was executed.",
                strategy: Some(gen_rules),
                fixed: None,
                fixed_exhaustive: false,
                check: check_rules,
                quick: 60_000,
                thorough: 3_000_000,
                small_stack: false,
            },
        ],
        assumptions: vec!["the recorded JavaScript corpus is ground truth", "strings are ordered by code point (the statement), pairs where JavaScript's UTF-16 order differs are dropped from the corpus", "U11: decimal strings with more than 20 significant digits skipped"],
    }
}
