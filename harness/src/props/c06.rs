//! C06 - one truthiness table governs every boolean decision.

use super::common::*;
use crate::gen;
use crate::model::{self, coerce};
use crate::runner::{Obs, Property, Sub};
use proptest::prelude::*;
use serde_json::{json, Value};

const T: &str = "§T§";
const F: &str = "§F§";

/// expression producing the value under test, by route
fn producer(route: &str, v: &Value) -> Option<(Value, Value)> {
    // returns (expression, data)
    let data = json!({"x": v, "xs": [v]});
    let x = json!({"var": "x"});
    let e = match route {
        "literal" => {
            if model::eval::as_operation(v).is_some() {
                return None;
            }
            v.clone()
        }
        "var" => x,
        "if-result" => json!({"if": [true, x]}),
        "or-result" => json!({"or": [x.clone(), x]}),
        "and-result" => json!({"and": [x.clone(), x]}),
        "reduce-result" => json!({"reduce": [[1], {"var": "accumulator"}, x]}),
        "default-result" => json!({"var": ["no-such-key", x]}),
        "element" => json!({"var": "xs.0"}),
        _ => return None,
    };
    Some((e, data))
}

pub const ROUTES: [&str; 8] = ["literal", "var", "if-result", "or-result", "and-result", "reduce-result", "default-result", "element"];

fn expect(rule: Value, data: &Value, want: &Value, pos: &str, v: &Value, route: &str, obs: &mut Obs) -> Result<(), String> {
    match run(&rule, data, obs)? {
        Some(got) if model::values_match(want, &got) => Ok(()),
        other => Err(format!("position {} decides {} wrongly (route {}): {} on {} gave {:?}, the table requires {}", pos, v, route, rule, data, other.map(|g| g.to_string()), want)),
    }
}

/// All eleven deciding positions for one value reached by one route.
fn check_positions(v: &Value, route: &str, obs: &mut Obs) -> Result<bool, String> {
    let (e, data) = match producer(route, v) {
        Some(p) => p,
        None => return Ok(false),
    };
    let t = coerce::truthy(v);
    let tf = |b: bool| json!(b);
    expect(json!({"!!": [e]}), &data, &tf(t), "!!", v, route, obs)?;
    expect(json!({"!": [e]}), &data, &tf(!t), "!", v, route, obs)?;
    expect(json!({"if": [e, T, F]}), &data, &json!(if t { T } else { F }), "if", v, route, obs)?;
    expect(json!({"?:": [e, T, F]}), &data, &json!(if t { T } else { F }), "?:", v, route, obs)?;
    expect(json!({"if": [false, "A", e, T, F]}), &data, &json!(if t { T } else { F }), "else-if", v, route, obs)?;
    expect(json!({"and": [e, T]}), &data, &(if t { json!(T) } else { v.clone() }), "and", v, route, obs)?;
    expect(json!({"or": [e, F]}), &data, &(if t { v.clone() } else { json!(F) }), "or", v, route, obs)?;
    // predicate positions: the predicate is evaluated with the element as its data, so routes are re-rooted there
    let pred = match route {
        "literal" => e.clone(),
        _ => json!({"var": ""}),
    };
    let coll = if route == "literal" { json!([1]) } else { json!({"var": "xs"}) };
    let kept = if route == "literal" { json!([1]) } else { json!([v]) };
    expect(json!({"filter": [coll, pred]}), &data, &(if t { kept } else { json!([]) }), "filter", v, route, obs)?;
    expect(json!({"all": [coll, pred]}), &data, &tf(t), "all", v, route, obs)?;
    expect(json!({"some": [coll, pred]}), &data, &tf(t), "some", v, route, obs)?;
    expect(json!({"none": [coll, pred]}), &data, &tf(!t), "none", v, route, obs)?;
    Ok(true)
}

pub fn contentious(v: &Value) -> bool {
    match v {
        Value::Array(_) | Value::Object(_) => true,
        Value::String(s) => matches!(s.as_str(), "" | "0" | "false" | "null" | " " | "0.0" | "-0" | "NaN" | "[]" | "{}"),
        Value::Number(n) => n.as_f64().map(|x| x.abs() < 1.0).unwrap_or(false),
        _ => false,
    }
}

fn corner_values() -> Vec<Value> {
    vec![
        json!(false), json!(true), Value::Null, json!(0), gen::f(-0.0), gen::f(0.0), json!(""), json!([]), json!("0"), json!([0]), json!([[]]), json!({}), json!({"a": 0}), json!(" "), json!("false"),
        json!("null"), gen::f(1e-320), gen::f(5e-324), gen::f(1e-16), gen::f(-1e-17), gen::f(2.220446049250313e-16), gen::f(0.1), json!(-1), json!(1), json!([null]), json!([""]), json!([false]), json!({"": null}),
        json!("0.0"), json!("-0"), json!("NaN"), json!([[], []]), json!({"var": "x"}), json!({"!!": [false]}), json!([{}]), json!(18446744073709551615u64), json!(i64::MIN), gen::f(f64::MAX), json!("a"),
        json!("\u{0000}"), json!("\u{FEFF}"), json!([0, 0]), gen::f(-1e-320),
        // strings that other languages or well-meant conveniences read as "no": all non-empty, hence truthy
        json!("no"), json!("off"), json!("undefined"), json!("None"), json!("nil"), json!("00"), json!("0e0"), json!("0x0"), json!("\t"), json!("\n"), json!("\u{3000}"), json!("\u{00a0}"), json!("FALSE"), json!("f"), json!("n"),
    ]
}

fn fixed_matrix() -> Vec<Value> {
    let mut out = vec![];
    for v in corner_values() {
        for r in ROUTES {
            out.push(json!({"v": v, "route": r}));
        }
    }
    out
}

fn check_case(case: &Value, obs: &mut Obs) -> Result<(), String> {
    let v = &case["v"];
    let route = case["route"].as_str().unwrap_or("var");
    if check_positions(v, route, obs)? {
        let cls = format!("{} {} via {}", if coerce::truthy(v) { "truthy" } else { "falsy" }, type_class(v), route);
        if contentious(v) {
            obs.nt(&cls);
        } else {
            obs.class(&cls);
        }
    } else {
        obs.class("route not applicable (operation-shaped literal)");
    }
    Ok(())
}

fn gen_cases() -> BoxedStrategy<Value> {
    (prop_oneof![3 => gen::values(), 1 => gen::floats(), 1 => proptest::sample::select(corner_values())], proptest::sample::select(ROUTES.to_vec())).prop_map(|(v, r)| json!({"v": v, "route": r})).boxed()
}

/// Values produced by operators (not written, not read from data) in a deciding position.
fn fixed_operator_results() -> Vec<Value> {
    let exprs = vec![
        (json!({"merge": []}), json!([])),
        (json!({"cat": []}), json!("")),
        (json!({"-": [0.0]}), json!(0)),
        (json!({"filter": [[1], false]}), json!([])),
        (json!({"cat": ["0"]}), json!("0")),
        (json!({"merge": [[0]]}), json!([0])),
        (json!({"merge": [[[]]]}), json!([[]])),
        (json!({"+": []}), json!(0)),
        (json!({"*": [1e-200, 1e-200]}), json!(0)),
        (json!({"/": [1, 1e17]}), gen::f(1.0 / 1e17)),
        (json!({"*": [5e-324, 1]}), gen::f(5e-324)),
        (json!({"var": "nope"}), Value::Null),
        (json!({"missing": []}), json!([])),
        (json!({"missing": ["nope"]}), json!(["nope"])),
        (json!({"substr": ["abc", 3]}), json!("")),
        (json!({"==": [1, 2]}), json!(false)),
        (json!({"map": [[], 1]}), json!([])),
        (json!({"map": [[0], {"var": ""}]}), json!([0])),
        (json!({"reduce": [[], 1, {"cat": []}]}), json!("")),
        (json!({"%": [4, 2]}), json!(0)),
        (json!({"min": ["", 5]}), json!(0)),
        (json!({"substr": ["0", 0]}), json!("0")),
        (json!({"var": ["nope", {}]}), json!({})),
        (json!({"in": ["a", "b"]}), json!(false)),
        (json!({"some": [[], true]}), json!(false)),
        (json!({"none": [[], true]}), json!(true)),
    ];
    exprs.into_iter().map(|(e, v)| json!({"expr": e, "value": v})).collect()
}

fn check_operator_result(case: &Value, obs: &mut Obs) -> Result<(), String> {
    let (e, v) = (&case["expr"], &case["value"]);
    let data = json!({});
    let t = coerce::truthy(v);
    let pos = "operator result";
    expect(e.clone(), &data, v, "(producer itself)", v, pos, obs)?;
    expect(json!({"!!": [e]}), &data, &json!(t), "!!", v, pos, obs)?;
    expect(json!({"!": [e]}), &data, &json!(!t), "!", v, pos, obs)?;
    expect(json!({"if": [e, T, F]}), &data, &json!(if t { T } else { F }), "if", v, pos, obs)?;
    expect(json!({"?:": [e, T, F]}), &data, &json!(if t { T } else { F }), "?:", v, pos, obs)?;
    expect(json!({"and": [e, T]}), &data, &(if t { json!(T) } else { v.clone() }), "and", v, pos, obs)?;
    expect(json!({"or": [e, F]}), &data, &(if t { v.clone() } else { json!(F) }), "or", v, pos, obs)?;
    expect(json!({"filter": [[7], e]}), &data, &(if t { json!([7]) } else { json!([]) }), "filter", v, pos, obs)?;
    expect(json!({"all": [[7], e]}), &data, &json!(t), "all", v, pos, obs)?;
    expect(json!({"some": [[7], e]}), &data, &json!(t), "some", v, pos, obs)?;
    expect(json!({"none": [[7], e]}), &data, &json!(!t), "none", v, pos, obs)?;
    obs.nt(&format!("{} {} as operator result", if t { "truthy" } else { "falsy" }, type_class(v)));
    Ok(())
}

/// Any expression in a deciding position: the decision must be the table's verdict on the value the expression
/// evaluates to on its own (model-free: the implementation supplies that value).
fn check_expression(case: &Value, obs: &mut Obs) -> Result<(), String> {
    let (e, data) = (rule_of(case), data_of(case));
    if let (crate::model::Res::Unspec("over_budget"), _) = model::eval(e, data) {
        obs.skip("over_budget");
        return Ok(());
    }
    let (value, lines) = run_traced(e, data, obs)?;
    let v = match value {
        Some(v) => v,
        None => {
            obs.class("expression fails");
            return Ok(());
        }
    };
    if !lines.is_empty() {
        obs.class("expression logs (positions would log twice)");
        return Ok(());
    }
    let t = coerce::truthy(&v);
    let pos = "expression";
    expect(json!({"!!": [e]}), data, &json!(t), "!!", &v, pos, obs)?;
    expect(json!({"!": [e]}), data, &json!(!t), "!", &v, pos, obs)?;
    expect(json!({"!": e}), data, &json!(!t), "! (bracket-less)", &v, pos, obs).or_else(|err| if e.is_array() { Ok(()) } else { Err(err) })?;
    expect(json!({"!!": e}), data, &json!(t), "!! (bracket-less)", &v, pos, obs).or_else(|err| if e.is_array() { Ok(()) } else { Err(err) })?;
    expect(json!({"if": [e, T, F]}), data, &json!(if t { T } else { F }), "if", &v, pos, obs)?;
    expect(json!({"?:": [e, T, F]}), data, &json!(if t { T } else { F }), "?:", &v, pos, obs)?;
    expect(json!({"if": [0, "A", e, T, F]}), data, &json!(if t { T } else { F }), "else-if", &v, pos, obs)?;
    expect(json!({"and": [e, T]}), data, &(if t { json!(T) } else { v.clone() }), "and", &v, pos, obs)?;
    expect(json!({"or": [e, F]}), data, &(if t { v.clone() } else { json!(F) }), "or", &v, pos, obs)?;
    expect(json!({"and": [1, e, T]}), data, &(if t { json!(T) } else { v.clone() }), "and (middle)", &v, pos, obs)?;
    expect(json!({"or": [0, e, F]}), data, &(if t { v.clone() } else { json!(F) }), "or (middle)", &v, pos, obs)?;
    // predicate positions: the expression must not depend on the element, so use a constant wrapper of its value
    let root = model::eval::as_operation(e).map(|x| x.0).unwrap_or("literal");
    let cls = format!("{} {} from {}", if t { "truthy" } else { "falsy" }, type_class(&v), root);
    if model::eval::as_operation(e).is_some() && contentious(&v) {
        obs.nt(&cls);
    } else if model::eval::as_operation(e).is_some() {
        obs.nt(&format!("{} (plain)", cls));
    } else {
        obs.class(&cls);
    }
    Ok(())
}

/// filter / all / some / none over long collections with the identity predicate: every element is judged by the table,
/// however many elements precede it and whatever they look like
fn check_long_positions(case: &Value, obs: &mut Obs) -> Result<(), String> {
    let xs: Vec<Value> = case["xs"].as_array().cloned().unwrap_or_default();
    let data = json!({"xs": xs});
    let id = json!({"var": ""});
    let coll = json!({"var": "xs"});
    let verdicts: Vec<bool> = xs.iter().map(coerce::truthy).collect();
    let kept: Vec<Value> = xs.iter().zip(verdicts.iter()).filter(|(_, t)| **t).map(|(v, _)| v.clone()).collect();
    let what = format!("{} elements", xs.len());
    let v = json!(what);
    expect(json!({"filter": [coll, id]}), &data, &Value::Array(kept), "filter", &v, "long collection", obs)?;
    expect(json!({"all": [coll, id]}), &data, &json!(!xs.is_empty() && verdicts.iter().all(|t| *t)), "all", &v, "long collection", obs)?;
    expect(json!({"some": [coll, id]}), &data, &json!(verdicts.iter().any(|t| *t)), "some", &v, "long collection", obs)?;
    expect(json!({"none": [coll, id]}), &data, &json!(!verdicts.iter().any(|t| *t)), "none", &v, "long collection", obs)?;
    expect(json!({"map": [coll, {"!!": [id]}]}), &data, &Value::Array(verdicts.iter().map(|t| json!(*t)).collect()), "map of !!", &v, "long collection", obs)?;
    obs.nt(&format!("{} elements", if xs.len() >= 256 { "256+" } else if xs.len() >= 64 { "64-255" } else { "under 64" }));
    Ok(())
}

fn gen_long_positions() -> BoxedStrategy<Value> {
    (proptest::collection::vec(proptest::sample::select(corner_values()), 2..=4), proptest::sample::select(vec![10usize, 63, 64, 65, 70, 100, 128, 129, 255, 256, 257, 300]), any::<u16>())
        .prop_map(|(pool, n, odd)| {
            let at = (odd as usize) % n;
            let xs: Vec<Value> = (0..n).map(|i| if i == at || i % 11 == 7 { pool[1 % pool.len()].clone() } else if i % 13 == 5 { pool[pool.len() - 1].clone() } else { pool[0].clone() }).collect();
            json!({"xs": xs})
        })
        .boxed()
}

fn gen_expression() -> BoxedStrategy<Value> {
    let cfg = crate::gen::rules::Cfg::all_ops().leaf(prop_oneof![2 => gen::values(), 1 => proptest::sample::select(corner_values())].boxed()).poison(0).bad_arity(0).depth(2);
    gen::case2(crate::gen::rules::rooted(cfg), gen::data_docs())
}

pub fn property() -> Property {
    Property {
        id: "C06",
        subs: vec![
            Sub {
                name: "corner_matrix",
                about: "58 corner values (false null 0 -0.0 \"\" [] \"0\" [0] [[]] {} tiny and huge numbers, look-alike strings, operation-shaped objects ...) x 8 routes (literal, var, element, result of if / or / and / reduce / var-default) x 11 deciding positions (! !! if ?: else-if and or filter all some none), each wrapped so that the result reveals the decision; oracle = the table transcribed from the statement.",
                nontrivial: "a value on which JavaScript, Python or PHP truthiness could differ from the JsonLogic table (containers, \"0\", \"false\", \"\", zero / tiny numbers).",
                strategy: None,
                fixed: Some(fixed_matrix),
                fixed_exhaustive: true,
                check: check_case,
                quick: 0,
                thorough: 0,
                small_stack: false,
            },
            Sub {
                name: "operator_results",
                about: "26 expressions whose operator result is a known corner value ({merge:[]} -> [], {cat:[]} -> \"\", {-:[0.0]}, underflowing products, ...) placed in all positions.",
                nontrivial: "every case.",
                strategy: None,
                fixed: Some(fixed_operator_results),
                fixed_exhaustive: true,
                check: check_operator_result,
                quick: 0,
                thorough: 0,
                small_stack: false,
            },
            Sub {
                name: "long_collections",
                about: "filter / all / some / none / map-of-!! with the identity predicate over collections of 10-300 corner values (mostly one value, others interspersed, e.g. 0 among \"0\"s): the outcome is computed element by element from the table.",
                nontrivial: "every case.",
                strategy: Some(gen_long_positions),
                fixed: None,
                fixed_exhaustive: false,
                check: check_long_positions,
                quick: 4_000,
                thorough: 200_000,
                small_stack: false,
            },
            Sub {
                name: "expressions",
                about: "arbitrary generated expressions over all 35 operators (comparisons on incomparable operands, !! / ! themselves, arithmetic, merge, var ...) placed in ! !! (bracketed and bracket-less) if ?: else-if and or (first and middle operand): the decision must be the table's verdict on the value the expression evaluates to on its own, and and / or must return that value itself (model-free).",
                nontrivial: "the expression is an operation (contentious result values are labelled separately).",
                strategy: Some(gen_expression),
                fixed: None,
                fixed_exhaustive: false,
                check: check_expression,
                quick: 80_000,
                thorough: 4_000_000,
                small_stack: false,
            },
            Sub {
                name: "generated",
                about: "generated values (whole corpus, random finite doubles) x route, all eleven positions.",
                nontrivial: "as corner_matrix.",
                strategy: Some(gen_cases),
                fixed: None,
                fixed_exhaustive: false,
                check: check_case,
                quick: 120_000,
                thorough: 6_000_000,
                small_stack: false,
            },
        ],
        assumptions: vec!["the truthiness table is the one written in the statement of C06"],
    }
}
