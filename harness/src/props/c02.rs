//! C02 - only single-key objects keyed by an operator name are rules; the rest is literal.

use super::common::*;
use crate::gen::{self, rules};
use crate::model::{self, Res};
use crate::runner::{Obs, Property, Sub};
use proptest::collection::vec;
use proptest::prelude::*;
use proptest::sample::select;
use serde_json::{json, Map, Value};

/// keys that are *not* operator names but look like one
fn near_miss_keys() -> BoxedStrategy<String> {
    let mutated = (select(gen::OP_NAMES.to_vec()), 0u8..16).prop_map(|(name, m)| match m {
        0 => name.to_uppercase(),
        1 => format!(" {}", name),
        2 => format!("{} ", name),
        3 => format!("\t{}", name),
        4 => format!("{}\n", name),
        5 => format!("{}\u{0000}", name),
        6 => format!("\u{200B}{}", name),
        7 => format!("{}s", name),
        8 => format!("{}{}", name, name),
        9 => name.chars().take(name.chars().count().saturating_sub(1)).collect::<String>(),
        10 => {
            let mut c: Vec<char> = name.chars().collect();
            if let Some(f) = c.first_mut() {
                *f = f.to_uppercase().next().unwrap_or(*f);
            }
            c.into_iter().collect()
        }
        11 => format!("{}\u{FEFF}", name),
        12 => format!("_{}", name),
        13 => format!("{}=", name),
        14 => name.chars().rev().collect::<String>(),
        _ => format!("{}.", name),
    });
    let fixed = select(vec![
        "", "=", "====", "?", ":", "? :", "?:?", "va", "vars", "VAR", "Var", "If", "IF", "AND", "Or", "not", "&&", "||", "<>", "=<", "=>", "**", "^", "method", "ᴠar", "＝＝", "＋", "ｉｆ", "＜", "іf", "mіn", "max ", " max",
        "filter\u{0301}", "a", "b", "0", "__proto__", "constructor", "toString", "op", "missing_all", "missing-some", "missingsome", "some ", "non", "alls", "reduce_right", "substring", "concat", "in ", "ln",
    ])
    .prop_map(|s| s.to_string());
    // names a well-meant extension would pick for a *new* operator (taken from extensions of other JsonLogic
    // implementations and from common expression languages): the property closes the operator set, so an object keyed
    // by one of these is a literal
    let plausible_new = select(vec![
        "abs", "floor", "ceil", "round", "trunc", "pow", "sqrt", "exp", "xor", "nand", "nor", "not", "eq", "ne", "neq", "gt", "gte", "ge", "lt", "lte", "le", "add", "sub", "mul", "div", "mod", "neg", "sum", "avg", "mean", "count",
        "len", "length", "size", "keys", "values", "entries", "get", "has", "exists", "typeof", "type", "between", "contains", "includes", "startsWith", "endsWith", "starts_with", "ends_with", "lower", "upper",
        "toLowerCase", "toUpperCase", "trim", "split", "join", "replace", "match", "regex", "test", "now", "date", "today", "datetime", "timestamp", "random", "uuid", "env", "try", "throw", "let", "set", "each", "eachKey",
        "sort", "reverse", "unique", "distinct", "flatten", "zip", "first", "last", "slice", "index", "indexOf", "find", "any", "every", "preserve", "literal", "quote", "raw", "!in", "not_in", "is_null", "isnull",
        "is_empty", "default", "coalesce", "??", "?.", "switch", "case", "cond", "unless", "while", "to_number", "to_string", "number", "string", "bool", "boolean", "int", "float", "parse_int", "parseFloat", "parseInt",
        "Number", "String", "Boolean", "Array", "Object", "Math.abs", "min_by", "max_by", "group_by", "pluck", "pick", "omit", "apply", "call", "eval", "rule", "ref", "$ref", "$var", "$", "@", "data", "context",
    ])
    .prop_map(|s| s.to_string());
    prop_oneof![4 => mutated, 2 => fixed, 2 => plausible_new].prop_filter("must not be an operator name", |k| !gen::OP_NAMES.contains(&k.as_str())).boxed()
}

fn dangerous_members() -> gen::VS {
    // things that would leave a trace or raise an error if anything inside a literal were evaluated
    prop_oneof![
        3 => rules::poison(),
        2 => gen::op_shaped(),
        1 => Just(json!({"var": "a"})),
        1 => Just(json!({"if": [true, {"log": "IN-LITERAL"}]})),
        3 => gen::scalars(),
    ]
    .boxed()
}

fn single(k: String, v: Value) -> Value {
    let mut m = Map::new();
    m.insert(k, v);
    Value::Object(m)
}

/// Values that are not operations at the top level, nested to depth 4, full of things that look like operations.
fn literal_values() -> gen::VS {
    let leaf: gen::VS = prop_oneof![
        4 => gen::scalars(),
        1 => Just(json!({})),
        1 => Just(json!([])),
    ]
    .boxed();
    leaf.prop_recursive(4, 24, 4, |inner| {
        let member: gen::VS = prop_oneof![3 => inner.clone(), 3 => dangerous_members()].boxed();
        prop_oneof![
            // arrays (their elements may be operations: still literal)
            3 => vec(member.clone(), 0..=4).prop_map(Value::Array),
            // single-key objects with a near-miss key
            3 => (near_miss_keys(), member.clone()).prop_map(|(k, v)| single(k, v)),
            // multi-key objects that contain operator keys
            3 => (select(gen::OP_NAMES.to_vec()), member.clone(), gen::keys(), member.clone(), proptest::option::of((gen::keys(), member.clone()))).prop_map(|(k1, v1, k2, v2, extra)| {
                let mut m = Map::new();
                m.insert(k1.to_string(), v1);
                m.insert(if k2 == k1 { format!("{}_", k2) } else { k2 }, v2);
                if let Some((k3, v3)) = extra {
                    m.insert(k3, v3);
                }
                if m.len() < 2 {
                    m.insert("zz".into(), Value::Null);
                }
                Value::Object(m)
            }),
            // a valid operation plus one annotation-like member (comment, schema, id ...): two keys, hence a literal
            2 => (select(gen::OP_NAMES.to_vec()), vec(member.clone(), 0..=3), select(vec!["//", "$comment", "comment", "_comment", "#", "description", "$schema", "$id", "id", "name", "title", "meta", "doc", "note", "version", "enabled", "type", "else", "then"]), prop_oneof![Just(json!("adults only")), Just(Value::Null), Just(json!(true)), Just(json!({"var": "a"}))]).prop_map(|(k1, v1, ann, av)| {
                let mut m = Map::new();
                m.insert(k1.to_string(), Value::Array(v1));
                m.insert(ann.to_string(), av);
                Value::Object(m)
            }),
            // every key an operator name, every value an array (looks like several rules merged into one object)
            1 => (select(gen::OP_NAMES.to_vec()), select(gen::OP_NAMES.to_vec()), proptest::option::of(select(gen::OP_NAMES.to_vec())), vec(member.clone(), 0..=3), vec(member.clone(), 0..=3)).prop_map(|(k1, k2, k3, v1, v2)| {
                let mut m = Map::new();
                m.insert(k1.to_string(), Value::Array(v1.clone()));
                m.insert(if k1 == k2 { "max".to_string() } else { k2.to_string() }, Value::Array(v2));
                if let Some(k3) = k3 {
                    m.insert(k3.to_string(), Value::Array(v1));
                }
                if m.len() < 2 {
                    m.insert("min".into(), json!([0]));
                }
                Value::Object(m)
            }),
            // two operator keys
            1 => (select(gen::OP_NAMES.to_vec()), select(gen::OP_NAMES.to_vec()), member.clone(), member).prop_map(|(k1, k2, v1, v2)| {
                let mut m = Map::new();
                m.insert(k1.to_string(), v1);
                m.insert(if k1 == k2 { "var2".to_string() } else { k2.to_string() }, v2);
                Value::Object(m)
            }),
        ]
        .boxed()
    })
    .prop_filter("top level must not be an operation", |v| model::eval::as_operation(v).is_none())
    .boxed()
}

fn interesting_literal(v: &Value) -> bool {
    // contains an operator name as some key, an operation nested in a literal, or a near-miss key
    fn walk(v: &Value, top: bool) -> bool {
        match v {
            Value::Array(a) => a.iter().any(|e| walk(e, false)),
            Value::Object(o) => {
                if !top && model::eval::as_operation(v).is_some() {
                    return true;
                }
                o.keys().any(|k| gen::OP_NAMES.iter().any(|n| k.to_lowercase().trim().trim_matches(|c: char| !c.is_ascii_graphic()).contains(n) || n.contains(k.as_str()) && !k.is_empty())) || o.values().any(|e| walk(e, false))
            }
            _ => false,
        }
    }
    walk(v, true)
}

fn check_literal(case: &Value, obs: &mut Obs) -> Result<(), String> {
    let v = &case["v"];
    let datas: Vec<Value> = vec![Value::Null, case["d1"].clone(), case["d2"].clone(), json!({"a": 1, "secret": 42, "x": {"var": "a"}})];
    for d in &datas {
        let t = crate::imp::apply_traced(v, d);
        obs.evals += 1;
        sanity(&t, v, d)?;
        match &t.out {
            crate::imp::Out::Ok(got) => {
                if !model::identical(got, v) {
                    return Err(format!("a non-operation value did not evaluate to itself: {} on data {} gave {}", v, d, got));
                }
            }
            other => return Err(format!("a non-operation value must evaluate to itself: {} on data {} gave {}", v, d, other.short())),
        }
        if !t.lines.is_empty() {
            return Err(format!("something inside a literal was evaluated (log output {:?}): {} on data {}", t.lines, v, d));
        }
    }
    // the model agrees (sanity of the model, not of the code)
    if let (Res::Ok(m), _) = model::eval(v, &Value::Null) {
        if !model::identical(&m, v) {
            return Err(format!("oracle_broken: the model does not treat {} as a literal", v));
        }
    }
    // also as an operand: a literal stays literal when it is passed through an eager operator that returns it
    let wrapped = json!({"merge": [[v]]});
    match run(&wrapped, &Value::Null, obs)? {
        Some(got) if model::identical(&got, &json!([v])) => {}
        other => return Err(format!("a literal changed on its way through merge: {} gave {:?}", wrapped, other.map(|g| g.to_string()))),
    }
    // a literal stays a literal in every operand position that returns its operand: last operand of or / and (also
    // wrapped by an operator named like one of its own keys), branches, defaults, initial values, element expressions
    let mut wrappers: Vec<(Value, Value)> = vec![
        (json!({"or": [0, v]}), v.clone()),
        (json!({"and": [1, v]}), v.clone()),
        (json!({"or": [v]}), v.clone()),
        (json!({"if": [true, v, 0]}), v.clone()),
        (json!({"if": [false, 0, v]}), v.clone()),
        (json!({"?:": [0, 1, v]}), v.clone()),
        (json!({"var": ["no-such-key", v]}), v.clone()),
        (json!({"reduce": [[], 0, v]}), v.clone()),
        (json!({"reduce": [[1], v, 0]}), v.clone()),
        (json!({"map": [[1, 2], v]}), json!([v, v])),
        (json!({"log": [v]}), v.clone()),
    ];
    if let Value::Object(o) = v {
        for k in o.keys() {
            if matches!(k.as_str(), "or" | "and") {
                wrappers.push((op_raw(k, json!([if k == "or" { json!(0) } else { json!(1) }, json!(null), v])), if k == "or" { v.clone() } else { Value::Null }));
                wrappers.push((op_raw(k, json!([if k == "or" { json!(0) } else { json!(1) }, v])), v.clone()));
            }
        }
    }
    for (w, want) in &wrappers {
        let t = crate::imp::apply_traced(w, &Value::Null);
        obs.evals += 1;
        sanity(&t, w, &Value::Null)?;
        let is_log = model::eval::as_operation(w).map(|x| x.0 == "log").unwrap_or(false);
        match &t.out {
            crate::imp::Out::Ok(got) if model::identical(got, want) => {}
            other => return Err(format!("a literal must stay a literal as an operand: {} should give {} but gave {}", w, want, other.short())),
        }
        if !is_log && !t.lines.is_empty() {
            return Err(format!("something inside a literal operand was evaluated (log output {:?}): {}", t.lines, w));
        }
    }
    if interesting_literal(v) {
        obs.nt(&format!("{} with operator-like content", type_class(v)));
    } else {
        obs.class(&format!("plain {}", type_class(v)));
    }
    Ok(())
}

fn gen_literals() -> BoxedStrategy<Value> {
    (literal_values(), gen::data_docs(), gen::values()).prop_map(|(v, d1, d2)| json!({"v": v, "d1": d1, "d2": d2})).boxed()
}

/// literals nested deeper than any text could deliver (built in memory): C02 quantifies over all JSON values
fn fixed_deep_literals() -> Vec<Value> {
    let mut out = vec![];
    for levels in [100usize, 127, 128, 129, 130, 160, 256, 300] {
        for kind in ["array", "object", "mixed"] {
            for leaf in [json!(1), json!({"var": "a"}), json!({"log": "DEEP"})] {
                out.push(json!({"levels": levels, "kind": kind, "leaf": leaf}));
            }
        }
    }
    out
}

fn check_deep_literal(case: &Value, obs: &mut Obs) -> Result<(), String> {
    let levels = case["levels"].as_u64().unwrap_or(1) as usize;
    let kind = case["kind"].as_str().unwrap_or("array");
    let mut v = case["leaf"].clone();
    // one wrapping level first, so that an operation-shaped leaf sits *inside* a literal
    for i in 0..levels {
        v = match (kind, i % 2) {
            ("array", _) | ("mixed", 0) => Value::Array(vec![v]),
            _ => {
                let mut m = Map::new();
                m.insert("k".into(), v);
                m.insert("z".into(), Value::Null);
                Value::Object(m)
            }
        };
    }
    for (rule, want) in [(v.clone(), v.clone()), (json!({"if": [true, v, 0]}), v.clone()), (json!({"merge": [[v]]}), json!([v]))] {
        let t = crate::imp::apply_traced(&rule, &json!({"a": 5}));
        obs.evals += 1;
        if let crate::imp::Out::Panic(m) = &t.out {
            return Err(format!("PANIC ({}) on a literal nested {} levels ({})", m, levels, kind));
        }
        match &t.out {
            crate::imp::Out::Ok(got) if got == &want => {}
            other => return Err(format!("a literal nested {} levels ({}) did not evaluate to itself: got {}", levels, kind, other.short().chars().take(200).collect::<String>())),
        }
        if !t.lines.is_empty() {
            return Err(format!("something inside a literal nested {} levels was evaluated: log output {:?}", levels, t.lines));
        }
    }
    obs.nt(&format!("{} nested {} levels", kind, if levels > 128 { "more than 128" } else { "up to 128" }));
    Ok(())
}

/// {k: args} is dispatched to k: the result is the model's for k, on operands where most other names would differ.
fn check_dispatch(case: &Value, obs: &mut Obs) -> Result<(), String> {
    let (rule, data) = (rule_of(case), data_of(case));
    let d = diff(rule, data, obs, TraceMode::Multiset)?;
    let (name, operand) = match model::eval::as_operation(rule) {
        Some(x) => x,
        None => return Err("oracle_broken: dispatch case is not an operation".into()),
    };
    if !matches!(d.model, Res::Ok(_) | Res::Err) {
        obs.class(&format!("{}: unspecified", name));
        return Ok(());
    }
    // how many of the other 34 names give a different outcome on the same operand text?
    let mut differ = 0;
    for other in gen::OP_NAMES {
        if *other == name {
            continue;
        }
        let alt = op_raw(other, operand.clone());
        let (r, c) = model::eval(&alt, data);
        if r != d.model || c.trace != d.ctx.trace {
            differ += 1;
        }
    }
    if differ >= 30 {
        obs.nt(&format!("{}: discriminating", name));
    } else {
        obs.class(&format!("{}: weakly discriminating", name));
    }
    Ok(())
}

fn gen_dispatch() -> BoxedStrategy<Value> {
    let cfg = rules::Cfg::all_ops().bad_arity(0).poison(1).depth(2);
    gen::case2(rules::rooted(cfg), gen::data_docs())
}

/// every operator name with a canonical, highly discriminating operand list
fn fixed_dispatch() -> Vec<Value> {
    let data = json!({"a": 5, "b": [1, 2, 3], "s": "héllo", "n": null});
    let cases: Vec<(&str, Value)> = vec![
        ("==", json!([1, "1"])), ("!=", json!([1, "1"])), ("===", json!([1, "1"])), ("!==", json!([1, "1"])), ("!", json!([[]])), ("!!", json!([[]])), ("<", json!([1, 2, 3])), ("<=", json!([2, 2, 1])),
        (">", json!([3, 2, 1])), (">=", json!([1, 1, 2])), ("+", json!(["2", 3])), ("-", json!([7, 10])), ("*", json!([3, "4"])), ("/", json!([7, 2])), ("%", json!([7, 4])), ("max", json!([3, 9, 4])),
        ("min", json!([3, 9, 4])), ("merge", json!([[1], 2, [[3]]])), ("in", json!([2, [1, 2]])), ("cat", json!(["a", 1, [2, 3]])), ("substr", json!(["héllo", 1, 2])), ("log", json!(["L"])),
        ("var", json!(["b.1", "dflt"])), ("missing", json!(["a", "zz"])), ("missing_some", json!([2, ["a", "zz", "yy"]])), ("if", json!([0, "A", 1, "B", "C"])), ("?:", json!([0, "A", 0, "B", "C"])),
        ("or", json!([0, "x", "y"])), ("and", json!([1, "x", 0, "y"])), ("map", json!([{"var": "b"}, {"*": [{"var": ""}, 2]}])), ("filter", json!([{"var": "b"}, {">": [{"var": ""}, 1]}])),
        ("reduce", json!([{"var": "b"}, {"+": [{"var": "current"}, {"var": "accumulator"}]}, 10])), ("all", json!([{"var": "b"}, {">": [{"var": ""}, 1]}])), ("some", json!([{"var": "b"}, {">": [{"var": ""}, 2]}])),
        ("none", json!([{"var": "b"}, {">": [{"var": ""}, 2]}])),
    ];
    cases.into_iter().map(|(k, args)| json!({"rule": op_raw(k, args), "data": data})).collect()
}

pub fn property() -> Property {
    Property {
        id: "C02",
        subs: vec![
            Sub {
                name: "literals",
                about: "generated values that are not operations (primitives, arrays holding operations and poison, {}, multi-key objects with operator keys, single-key objects with near-miss keys: case / whitespace / NUL / zero-width / look-alike / prefix / extension variants of every operator name), nested to depth 4; apply(v,d) must be Ok(v) with identical text for four different data and must log nothing; also unchanged through merge and as the returned operand of or / and (incl. an operator named like one of the literal's own keys) / if / ?: / var default / reduce / map / log.",
                nontrivial: "the value contains an operator name as some key, an operation nested in a literal, or a near-miss key.",
                strategy: Some(gen_literals),
                fixed: None,
                fixed_exhaustive: false,
                check: check_literal,
                quick: 200_000,
                thorough: 10_000_000,
                small_stack: false,
            },
            Sub {
                name: "deep_literals",
                about: "literal arrays / objects / alternating nests of 100..300 levels (deeper than any text can deliver, built in memory) around a scalar, an operation-shaped leaf or a logging leaf: at top level, as a selected branch and through merge they come back identical and log nothing; 2 MiB stack.",
                nontrivial: "every case.",
                strategy: None,
                fixed: Some(fixed_deep_literals),
                fixed_exhaustive: false,
                check: check_deep_literal,
                quick: 0,
                thorough: 0,
                small_stack: true,
            },
            Sub {
                name: "dispatch_canonical",
                about: "each of the 35 operator names with a canonical operand list on which (nearly) every other name gives a different result; against the model.",
                nontrivial: "at least 30 of the 34 other names would produce a different outcome for the same operands.",
                strategy: None,
                fixed: Some(fixed_dispatch),
                fixed_exhaustive: true,
                check: check_dispatch,
                quick: 0,
                thorough: 0,
                small_stack: false,
            },
            Sub {
                name: "dispatch_generated",
                about: "generated {k: operands} for all 35 names with valid operand shapes (depth 2) against the model (value and log multiset).",
                nontrivial: "as dispatch_canonical.",
                strategy: Some(gen_dispatch),
                fixed: None,
                fixed_exhaustive: false,
                check: check_dispatch,
                quick: 100_000,
                thorough: 5_000_000,
                small_stack: false,
            },
        ],
        assumptions: vec!["the 35 operator names are those listed in C03's statement (full JsonLogic set plus ?:)"],
    }
}
