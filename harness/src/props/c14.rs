//! C14 - all / some / none: bounded quantifiers with short-circuit; none = not some.

use super::common::*;
use crate::gen::{self, rules};
use crate::model::{self, coerce, Res};
use crate::runner::{Obs, Property, Sub};
use proptest::collection::vec;
use proptest::prelude::*;
use proptest::sample::select;
use serde_json::{json, Value};

fn predicates() -> gen::VS {
    prop_oneof![
        3 => Just(json!({"var": ""})),                          // identity truthiness
        2 => Just(json!({">": [{"var": ""}, 1]})),
        2 => Just(json!({"===": [{"var": ""}, "é"]})),
        1 => select(vec![json!(1), json!("1"), json!(0), json!("0"), Value::Null, json!("null"), json!(true), json!("true")]).prop_map(|x| json!({"===": [{"var": ""}, x]})),
        1 => Just(json!({"===": [{"var": ""}, "😀"]})),
        1 => Just(json!({"in": [{"var": ""}, "aé日😀"]})),
        1 => Just(json!({"in": [{"var": ""}, [1, "a", "é", "😀", null]]})),
        1 => Just(json!(true)),
        1 => Just(json!(false)),
        1 => Just(json!(0)),
        1 => Just(json!("x")),
        1 => Just(json!({"!": [{"var": ""}]})),
        1 => Just(json!({"log": [{"var": ""}]})),
        1 => Just(json!({"map": [{"var": ""}, 1]})),             // errors on non-arrays, [] (falsy) on []
        1 => Just(json!({"var": "a"})),
        1 => Just(json!({"var": {"var": "pick"}})),
        1 => Just(json!({"var": {"cat": ["v_", {"var": "pick"}]}})),
        1 => Just(json!({"!": [{"missing": ["a"]}]})),
        1 => Just(json!({"var": "outer"})),
        1 => Just(json!({"<": [{"var": ""}, "b"]})),
        1 => Just(json!({"cat": [{"var": ""}]})),
        1 => Just(json!({"+": ["x"]})),
    ]
    .boxed()
}

fn element_values() -> gen::VS {
    prop_oneof![
        3 => gen::small_ints(),
        2 => select(vec![json!(0), json!(""), json!([]), Value::Null, json!(false)]),
        2 => select(vec![json!("a"), json!("é"), json!("😀"), json!("b"), json!(2), json!(true), json!([0]), json!({})]),
        2 => super::c13::twin_scalars(),
        1 => Just(json!({"a": 1})),
        2 => select(vec![json!({"pick": "x", "v_x": 0, "v_y": 1, "x": 0, "y": 1}), json!({"pick": "y", "v_x": 0, "v_y": 1, "x": 0, "y": 1}), json!({"pick": "a", "a": ""}), json!({"max": 10}), json!({"in": "stock"})]),
        1 => gen::op_shaped(),
        1 => gen::scalars(),
    ]
    .boxed()
}

/// element *expressions* for literal arrays (evaluated against the outer data), incl. poison
fn element_exprs() -> gen::VS {
    prop_oneof![
        4 => element_values().prop_filter("literal elements must not be operations", |v| model::eval::as_operation(v).is_none()),
        2 => select(vec!["o1", "o0", "oe", "ostr", "outer"]).prop_map(|k| json!({"var": k})),
        1 => Just(json!({"cat": ["a", "b"]})),
        1 => Just(json!({"+": [1, 1]})),
        2 => (0u8..4).prop_map(|i| json!({"log": format!("E{}", i)})),
        1 => Just(json!({"log": 0})),
        2 => (0u8..3).prop_map(|i| json!({"+": [format!("x{}", i)]})),
        1 => Just(json!({"==": [1]})),
    ]
    .boxed()
}

const TEXTS: &[&str] = &["", "a", "ab", "é", "aé", "éa", "日本語", "a😀b", "😀", "😀😀", "𝄞é", "abcabc", "b", "héllo"];

fn outer(xs: Value) -> Value {
    json!({"xs": xs, "o1": 1, "o0": 0, "oe": "é", "ostr": "aé😀", "outer": "OUTER", "n": null, "num": 5, "obj": {"a": 1, "b": 2}, "a": "outer-a"})
}

/// (collection operand, data, kind)
fn collections() -> BoxedStrategy<(Value, Value, &'static str)> {
    prop_oneof![
        4 => vec(element_exprs(), 0..=5).prop_map(|e| (Value::Array(e), outer(json!([])), "literal array of expressions")),
        4 => vec(element_values(), 0..=5).prop_map(|e| (json!({"var": "xs"}), outer(Value::Array(e)), "computed array")),
        1 => vec(element_values(), 0..=4).prop_map(|e| (json!({"merge": [{"var": "xs"}]}), outer(Value::Array(e)), "computed array")),
        1 => vec(element_values(), 1..=4).prop_map(|e| (json!({"var": ""}), Value::Array(e), "computed array (whole data)")),
        2 => select(TEXTS.to_vec()).prop_map(|s| (json!(s), outer(json!([])), "literal string")),
        1 => gen::texts(5).prop_map(|s| (json!(s), outer(json!([])), "literal string")),
        2 => select(TEXTS.to_vec()).prop_map(|s| (json!({"var": "xs"}), outer(json!(s)), "computed string")),
        1 => select(TEXTS.to_vec()).prop_map(|s| (json!({"cat": [s, {"var": "oe"}]}), outer(json!([])), "computed string")),
        1 => Just((Value::Null, outer(json!([])), "null")),
        1 => Just((json!({"var": "n"}), outer(json!([])), "null")),
        1 => Just((json!([]), outer(json!([])), "empty")),
        1 => Just((json!({"var": "xs"}), outer(json!([])), "empty")),
        1 => prop_oneof![Just(json!(5)), Just(json!(true)), Just(json!({"var": "num"})), Just(json!({"var": "obj"})), Just(json!({"a": 1, "b": 2})), Just(json!({})), Just(json!(0.5))].prop_map(|c| (c, outer(json!([])), "other type")),
    ]
    .boxed()
}

fn bool_of(v: &Option<Value>) -> Option<bool> {
    v.as_ref().and_then(|x| x.as_bool())
}

fn check_quant(case: &Value, obs: &mut Obs) -> Result<(), String> {
    let (coll, pred, data) = (&case["coll"], &case["pred"], &case["data"]);
    let kind = case["kind"].as_str().unwrap_or("");
    let mut results: Vec<Option<Value>> = vec![];
    let mut diffs = vec![];
    for op in ["all", "some", "none"] {
        let rule = op2(op, coll, pred);
        let d = diff(&rule, data, obs, TraceMode::Multiset)?;
        results.push(match &d.out {
            crate::imp::Out::Ok(v) => Some(v.clone()),
            _ => None,
        });
        diffs.push(d);
    }
    let (all, some, none) = (bool_of(&results[0]), bool_of(&results[1]), bool_of(&results[2]));
    for (i, r) in results.iter().enumerate() {
        if let Some(v) = r {
            if !v.is_boolean() {
                return Err(format!("{} did not return a boolean: {} for collection {} predicate {} data {}", ["all", "some", "none"][i], v, coll, pred, data));
            }
        }
    }
    // none is the exact negation of some (also in failing: both or neither)
    match (&results[1], &results[2]) {
        (Some(_), Some(_)) => {
            if none != some.map(|b| !b) {
                return Err(format!("none ({:?}) is not the negation of some ({:?}) for collection {} predicate {} data {}", none, some, coll, pred, data));
            }
        }
        (None, None) => {}
        _ => return Err(format!("some and none disagree about failing: some = {:?}, none = {:?} for collection {} predicate {} data {}", results[1], results[2], coll, pred, data)),
    }
    // all(p) == none(!p) on non-empty collections (when all of them succeed)
    let negated = json!({"!": [pred]});
    if let (Some(a), Some(s)) = (all, some) {
        if let Some(nn) = bool_of(&run(&op2("none", coll, &negated), data, obs)?) {
            let empty = matches!(model::eval(&op2("some", coll, &json!(true)), data).0, Res::Ok(Value::Bool(false)));
            if !empty && nn != a {
                return Err(format!("duality broken: all(p) = {} but none(!p) = {} on a non-empty collection {} predicate {} data {}", a, nn, coll, pred, data));
            }
            if empty && (a || s) {
                return Err(format!("empty / null collection must make all and some false: all = {}, some = {} for {} on {}", a, s, coll, data));
            }
        }
    }
    // classes
    let m = &diffs[0].model;
    let skipped = diffs.iter().map(|d| d.ctx.skipped).sum::<u32>();
    let skipped_poison = diffs.iter().map(|d| d.ctx.skipped_poison).sum::<u32>();
    if !matches!(m, Res::Ok(_) | Res::Err) && !matches!(diffs[1].model, Res::Ok(_) | Res::Err) {
        obs.class("unspecified");
    } else if skipped_poison > 0 {
        obs.nt(&format!("poison after the deciding element ({})", kind));
    } else if kind.contains("string") && coll_has_multibyte(coll, data) {
        obs.nt(&format!("multi-byte {}", kind));
    } else if skipped > 0 {
        obs.nt(&format!("deciding element not last ({})", kind));
    } else if kind == "null" || kind == "empty" {
        obs.nt(&format!("{} collection", kind));
    } else if kind == "other type" {
        obs.nt("collection of another type (error)");
    } else if kind.starts_with("computed") {
        obs.nt(kind);
    } else {
        obs.class(kind);
    }
    Ok(())
}

fn coll_has_multibyte(coll: &Value, data: &Value) -> bool {
    let s = match coll {
        Value::String(s) => s.clone(),
        _ => match model::eval(coll, data).0 {
            Res::Ok(Value::String(s)) => s,
            _ => String::new(),
        },
    };
    !s.is_ascii()
}

/// long collections of twin scalars: quantifiers have no size threshold and no per-element shortcut
fn gen_long_quant() -> BoxedStrategy<Value> {
    let pred = prop_oneof![
        3 => Just(json!({"var": ""})),
        2 => select(vec![json!(1), json!("1"), json!(0), json!("0"), Value::Null, json!("null")]).prop_map(|x| json!({"===": [{"var": ""}, x]})),
        1 => Just(json!({"!": [{"var": ""}]})),
        1 => Just(json!({"in": [{"var": ""}, ["0", 1, "null"]]})),
    ];
    (proptest::collection::vec(super::c13::twin_scalars(), 2..=5), select(vec![63usize, 64, 65, 70, 100, 128, 129, 255, 256, 257, 300]), pred, any::<bool>(), any::<u16>())
        .prop_map(|(pool, n, p, shared_first, odd)| {
            // mostly one value, the odd one out late in the collection
            let at = (odd as usize) % n;
            let xs: Vec<Value> = (0..n).map(|i| if i == at || (!shared_first && i % 9 == 4) { pool[1 % pool.len()].clone() } else { pool[0].clone() }).collect();
            json!({"coll": {"var": "xs"}, "pred": p, "data": outer(Value::Array(xs)), "kind": "computed array (long, twin scalars)"})
        })
        .boxed()
}

fn gen_quant() -> BoxedStrategy<Value> {
    (collections(), predicates()).prop_map(|((coll, data, kind), pred)| json!({"coll": coll, "pred": pred, "data": data, "kind": kind})).boxed()
}

/// Strings are taken character by character: quantifying over a string equals quantifying over the array of its characters.
fn check_chars(case: &Value, obs: &mut Obs) -> Result<(), String> {
    let s = case["s"].as_str().unwrap_or("");
    let pred = &case["pred"];
    let chars: Vec<Value> = s.chars().map(|c| json!(c.to_string())).collect();
    for op in ["all", "some", "none"] {
        for (coll, data, route) in [(json!(s), Value::Null, "literal"), (json!({"var": "s"}), json!({"s": s}), "computed")] {
            let by_string = run(&op2(op, &coll, pred), &data, obs)?;
            let by_chars = run(&op2(op, &json!({"var": "cs"}), pred), &json!({"cs": chars}), obs)?;
            if by_string != by_chars {
                return Err(format!("{} over the {} string {:?} gives {:?} but over its characters {:?} gives {:?} (predicate {})", op, route, s, by_string.map(|v| v.to_string()), chars, by_chars.map(|v| v.to_string()), pred));
            }
            // and against the explicit quantifier over the characters
            let verdicts: Vec<Option<bool>> = chars.iter().map(|c| run(pred, c, obs).ok().flatten().map(|v| coerce::truthy(&v))).collect();
            if verdicts.iter().all(|v| v.is_some()) {
                let v: Vec<bool> = verdicts.into_iter().map(|x| x.unwrap()).collect();
                let want = match op {
                    "all" => !v.is_empty() && v.iter().all(|b| *b),
                    "some" => v.iter().any(|b| *b),
                    _ => !v.iter().any(|b| *b),
                };
                if by_string != Some(json!(want)) {
                    return Err(format!("{} over the {} string {:?} with predicate {} should be {} (per-character verdicts {:?}), got {:?}", op, route, s, pred, want, v, by_string.map(|x| x.to_string())));
                }
            }
        }
    }
    if s.chars().any(|c| c.len_utf8() == 4) {
        obs.nt("string with 4-byte characters");
    } else if !s.is_ascii() {
        obs.nt("string with 2-/3-byte characters");
    } else if s.is_empty() {
        obs.nt("empty string");
    } else {
        obs.class("ascii string");
    }
    Ok(())
}

fn gen_chars() -> BoxedStrategy<Value> {
    let preds = prop_oneof![
        Just(json!({"===": [{"var": ""}, "😀"]})),
        Just(json!({"===": [{"var": ""}, "é"]})),
        Just(json!({"in": [{"var": ""}, "aé日😀𝄞"]})),
        Just(json!({"<": [{"var": ""}, "z"]})),
        Just(json!({"!==": [{"var": ""}, "\u{FFFD}"]})),
        Just(json!({"===": [{"cat": [{"var": ""}]}, {"var": ""}]})),
        Just(json!({"===": [{"substr": [{"var": ""}, 0, 1]}, {"var": ""}]})),
        Just(json!({"var": ""})),
    ];
    (prop_oneof![2 => gen::texts(6), 1 => select(TEXTS.to_vec()).prop_map(|s| s.to_string())], preds).prop_map(|(s, p)| json!({"s": s, "pred": p})).boxed()
}

fn check_rules(case: &Value, obs: &mut Obs) -> Result<(), String> {
    let d = diff(rule_of(case), data_of(case), obs, TraceMode::Multiset)?;
    if matches!(d.model, Res::Ok(_)) {
        obs.nt(if d.ctx.skipped > 0 { "generated quantifier rule, short-circuit" } else { "generated quantifier rule" });
    }
    Ok(())
}

fn gen_rules() -> BoxedStrategy<Value> {
    let cfg = rules::Cfg::new(&["all", "some", "none", "all", "some", "none", "var", "merge", ">", "!", "cat", "if", "in"]).keys(&["", "a", "b", "xs", "0", "outer"]).vars(8).poison(3).bad_arity(10);
    gen::case2(rules::rooted(cfg), gen::data_docs())
}


const KINDS: u64 = 6;
fn check_sizes(case: &Value, obs: &mut Obs) -> Result<(), String> {
    let n = case["n"].as_u64().unwrap_or(1) as usize;
    let k = case["k"].as_u64().unwrap_or(0);
    // the deciding element is the last one
    let mut ones: Vec<Value> = vec![json!(1); n];
    ones[n - 1] = json!(0);
    let mut zeros: Vec<Value> = vec![json!(0); n];
    zeros[n - 1] = json!(1);
    let data = json!({"ones": ones, "zeros": zeros, "s": sized_string(n)});
    let rule = match k {
        0 => json!({"all": [{"var": "ones"}, {"var": ""}]}),
        1 => json!({"some": [{"var": "zeros"}, {"var": ""}]}),
        2 => json!({"none": [{"var": "zeros"}, {"var": ""}]}),
        3 => json!({"all": [{"var": "s"}, {"var": ""}]}),
        4 => json!({"some": [{"var": "s"}, {"!": {"var": ""}}]}),
        _ => json!({"all": [{"var": "zeros"}, {"!": {"var": ""}}]}),
    };
    size_case(&rule, &data, obs, &format!("size kind {} n {}", k, if n < 1000 { "~2^8" } else if n < 10000 { "~2^12" } else { "~2^16" }))
}

fn fixed_sizes() -> Vec<Value> {
    let mut out = vec![];
    for n in SIZE_EDGES {
        for k in 0..KINDS {
            out.push(json!({"n": n, "k": k}));
        }
    }
    out
}

pub fn property() -> Property {
    Property {
        id: "C14",
        subs: vec![
            Sub {
                name: "size_boundaries",
                about: "collections of exactly 255 ... 65537 elements (and strings of that many characters) whose deciding element is the last one: all / some / none must visit every element and stop there, against the reference model.",
                nontrivial: "every case.",
                strategy: None,
                fixed: Some(fixed_sizes),
                fixed_exhaustive: true,
                check: check_sizes,
                quick: 0,
                thorough: 0,
                small_stack: false,
            },
            Sub {
                name: "quantifiers",
                about: "all / some / none over literal arrays whose elements are expressions (outer-data references, logging and erroring poison placed anywhere, statically malformed elements), computed arrays (var, merge, whole data) whose elements are data, literal and computed strings incl. 4-byte characters, null, empty, and other types; 18 predicates; oracle = the model (quantifier semantics, laziness via the log multiset and poison) plus model-free laws: boolean result, none = not some (and fails exactly when some fails), all(p) = none(!p) on non-empty collections, empty / null give all = some = false.",
                nontrivial: "poison after the deciding element, deciding element not last, multi-byte string, computed collection, empty / null collection, or another type (error).",
                strategy: Some(gen_quant),
                fixed: None,
                fixed_exhaustive: false,
                check: check_quant,
                quick: 150_000,
                thorough: 8_000_000,
                small_stack: false,
            },
            Sub {
                name: "long_collections",
                about: "all / some / none over computed collections of 63-300 elements that are one twin scalar except for its other spelling at a late position (0 among \"0\"s, null among \"null\"s ...), with identity, strict-equality, negation and membership predicates; model and dualities.",
                nontrivial: "every case.",
                strategy: Some(gen_long_quant),
                fixed: None,
                fixed_exhaustive: false,
                check: check_quant,
                quick: 3_000,
                thorough: 150_000,
                small_stack: false,
            },
            Sub {
                name: "characters",
                about: "a string (literal or computed) must quantify exactly like the array of its Unicode characters, and like the explicit quantifier over per-character verdicts; 8 predicates incl. identity of a character under cat / substr.",
                nontrivial: "string with multi-byte characters, or empty.",
                strategy: Some(gen_chars),
                fixed: None,
                fixed_exhaustive: false,
                check: check_chars,
                quick: 30_000,
                thorough: 1_500_000,
                small_stack: false,
            },
            Sub {
                name: "rules_model",
                about: "generated nested rules around all / some / none (poison weight raised) against the model.",
                nontrivial: "the model determines a value.",
                strategy: Some(gen_rules),
                fixed: None,
                fixed_exhaustive: false,
                check: check_rules,
                quick: 80_000,
                thorough: 4_000_000,
                small_stack: false,
            },
        ],
        assumptions: vec!["U7: empty collection with a statically malformed predicate", "U13: log lines compared as multisets", "U6: no trace comparison when the result is an error"],
    }
}
