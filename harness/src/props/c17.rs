//! C17 - apply is a pure, stateless, thread-safe function of (rule, data).
//! Domain: *histories* - pools of rules and data plus a sequence of operations interpreted against the real library.

use super::common::*;
use crate::capture;
use crate::cli;
use crate::gen::{self, rules};
use crate::imp::{self, Out};
use crate::model::{self, Res};
use crate::runner::{Obs, Property, Sub};
use proptest::collection::vec;
use proptest::prelude::*;
use proptest::sample::select;
use serde_json::{json, Value};
use std::collections::BTreeMap;
use std::sync::{Arc, Barrier};

/// strings on which parseFloat-style and Number-style conversion disagree, or that are numerically awkward:
/// a cache keyed too coarsely shows up when two rules convert the same string differently
const SHARED_STRINGS: &[&str] = &["", " ", "12px", "1e", "0x10", "3.5.1", "Infinityx", "0b11", "1e3", " 7 ", "-", "0o17", "abc", "10", "9", "1,2"];

fn sensitive_rules() -> gen::VS {
    let s = || select(SHARED_STRINGS.to_vec()).prop_map(|x| json!(x));
    let operand = || prop_oneof![3 => s(), 2 => select(vec!["a", "b", "s", "t"]).prop_map(|k| json!({"var": k})), 1 => gen::small_ints()];
    prop_oneof![
        (select(vec!["+", "*"]), operand(), operand()).prop_map(|(op, a, b)| op2(op, &a, &b)),
        (select(vec!["+", "*"]), operand()).prop_map(|(op, a)| op1(op, &a)),
        (select(vec!["-", "/", "%", "max", "min"]), operand(), operand()).prop_map(|(op, a, b)| op2(op, &a, &b)),
        (select(vec!["<", "<=", ">", ">=", "==", "!="]), operand(), operand()).prop_map(|(op, a, b)| op2(op, &a, &b)),
        operand().prop_map(|a| op1("-", &a)),
        (operand(), operand()).prop_map(|(a, b)| json!({"if": [{"<": [a, 5]}, {"+": [b, 1]}, {"-": [b, 1]}]})),
    ]
    .boxed()
}

fn logging_rules() -> gen::VS {
    let payload = prop_oneof![
        2 => vec(gen::small_ints(), 0..=6).prop_map(Value::Array),
        1 => Just(json!({"var": ""})),
        1 => Just(json!({"var": "a"})),
        1 => gen::scalars(),
        1 => Just(json!({"k": [1, 2, {"n": "é"}], "z": "line\nbreak"})),
        1 => Just(json!({"merge": [{"var": "xs"}, [1, 2, 3, "four", 5.5, null, true, {"six": 6}]]})),
    ];
    prop_oneof![
        payload.clone().prop_map(|p| json!({"log": [p]})),
        (payload.clone(), payload.clone()).prop_map(|(p, q)| json!({"cat": [{"log": [p]}, "|", {"log": [q]}]})),
        (payload.clone(), payload.clone()).prop_map(|(p, q)| json!({"if": [{"log": [p]}, {"log": [q]}, "no"]})),
        payload.prop_map(|p| json!({"map": [{"var": "xs"}, {"log": [{"merge": [{"var": ""}, p]}]}]})),
    ]
    .boxed()
}

fn history_rules() -> gen::VS {
    let general = rules::rooted(rules::Cfg::new(&["var", "cat", "+", "if", "==", "<", "merge", "map", "filter", "reduce", "in", "substr", "missing", "and", "or", "!", "all", "log", "max"]).keys(&["a", "b", "s", "t", "xs", "", "0", "$index", "index", "xs.length"]).vars(8).poison(1).bad_arity(20).depth(2));
    // literals named like the impure operators an extension would add (clock, randomness, environment, counters): on the
    // unchanged tree they evaluate to themselves; if one of them ever becomes an operator, its result must still be the
    // same whenever and wherever it is evaluated
    let impure_named = (select(vec!["now", "date", "today", "time", "timestamp", "datetime", "random", "rand", "uuid", "env", "getenv", "counter", "next", "seq", "id", "hostname", "pid", "thread", "clock", "nanos"]), prop_oneof![Just(json!([])), Just(Value::Null), Just(json!("HOME")), Just(json!([1, 10]))]).prop_map(|(k, v)| {
        let mut m = serde_json::Map::new();
        m.insert(k.to_string(), v);
        let lit = Value::Object(m);
        json!({"merge": [{"var": ["nope", lit.clone()]}, {"or": [lit]}]})
    });
    prop_oneof![6 => sensitive_rules(), 6 => logging_rules(), 8 => general, 2 => rules::poison(), 1 => impure_named].boxed()
}

fn history_data() -> gen::VS {
    let s = || select(SHARED_STRINGS.to_vec()).prop_map(|x| json!(x));
    prop_oneof![
        4 => (s(), s(), gen::scalars(), gen::scalars(), vec(gen::small_ints(), 0..=4)).prop_map(|(s1, s2, a, b, xs)| json!({"s": s1, "t": s2, "a": a, "b": b, "xs": xs})),
        2 => gen::data_docs(),
        1 => vec(gen::scalars(), 0..=4).prop_map(Value::Array),
        1 => gen::scalars(),
    ]
    .boxed()
}

type Pair = (usize, usize);

fn pairs_in(ops: &[Value]) -> Vec<Pair> {
    let mut v = vec![];
    for op in ops {
        match op["t"].as_str().unwrap_or("") {
            "batch" => {
                for th in op["threads"].as_array().cloned().unwrap_or_default() {
                    for c in th.as_array().cloned().unwrap_or_default() {
                        v.push((c[0].as_u64().unwrap_or(0) as usize, c[1].as_u64().unwrap_or(0) as usize));
                    }
                }
            }
            _ => v.push((op["i"].as_u64().unwrap_or(0) as usize, op["j"].as_u64().unwrap_or(0) as usize)),
        }
    }
    v
}

#[derive(Clone, PartialEq, Debug)]
struct Observed {
    out: Out,
    lines: Vec<String>,
}

fn same_out(a: &Out, b: &Out) -> bool {
    match (a, b) {
        (Out::Ok(x), Out::Ok(y)) => model::identical(x, y),
        (Out::Err(x), Out::Err(y)) => x == y,
        _ => false,
    }
}

fn call(rule: &Value, data: &Value, obs: &mut Obs, what: &str) -> Result<Observed, String> {
    let before = (rule.to_string(), data.to_string());
    let t = imp::apply_traced(rule, data);
    obs.evals += 1;
    sanity(&t, rule, data)?;
    if (rule.to_string(), data.to_string()) != before {
        return Err(format!("{}: the call modified its inputs: {}", what, fmt_case(rule, data)));
    }
    Ok(Observed { out: t.out, lines: t.lines })
}

/// result and log lines the properties determine for one call (None = unspecified)
fn specified(rule: &Value, data: &Value) -> Option<(Option<Value>, Vec<String>)> {
    let (m, ctx) = model::eval(rule, data);
    match m {
        Res::Ok(v) => Some((Some(v), ctx.trace)),
        Res::Err => Some((None, vec![])),
        Res::Unspec(_) => None,
    }
}

fn against_model(rule: &Value, data: &Value, got: &Observed, what: &str) -> Result<bool, String> {
    match specified(rule, data) {
        None => Ok(false),
        Some((Some(v), trace)) => {
            match &got.out {
                Out::Ok(w) if model::values_match(&v, w) => {}
                other => return Err(format!("{}: result differs from the result in isolation (reference semantics): expected {} got {} for {}", what, v, other.short(), fmt_case(rule, data))),
            }
            let (mut a, mut b) = (trace.clone(), got.lines.clone());
            a.sort();
            b.sort();
            if a != b {
                return Err(format!("{}: stdout must be exactly one line per evaluated log: expected {:?} got {:?} for {}", what, trace, got.lines, fmt_case(rule, data)));
            }
            // log returns its operand unchanged and writes exactly that operand: covered by the model (value + line)
            Ok(true)
        }
        Some((None, _)) => match &got.out {
            Out::Err(_) => Ok(true),
            other => Err(format!("{}: expected an error (as in isolation), got {} for {}", what, other.short(), fmt_case(rule, data))),
        },
    }
}

fn run_batch(rules: &[Value], datas: &[Value], threads: &[Vec<Pair>], obs: &mut Obs) -> Result<(Vec<Vec<Out>>, Vec<String>, bool), String> {
    let barrier = Arc::new(Barrier::new(threads.len()));
    let (results, so, se) = capture::observe(|| {
        std::thread::scope(|scope| {
            let mut handles = vec![];
            for calls in threads {
                let barrier = barrier.clone();
                handles.push(scope.spawn(move || {
                    barrier.wait();
                    calls.iter().map(|(i, j)| imp::apply(&rules[*i], &datas[*j])).collect::<Vec<Out>>()
                }));
            }
            handles.into_iter().map(|h| h.join().unwrap_or_else(|_| vec![Out::Panic("thread died".into())])).collect::<Vec<Vec<Out>>>()
        })
    });
    obs.evals += threads.iter().map(|t| t.len() as u32).sum::<u32>();
    if !se.is_empty() {
        return Err(format!("a concurrent batch wrote to stderr: {:?}", String::from_utf8_lossy(&se)));
    }
    let (lines, complete) = capture::lines(&so);
    Ok((results, lines, complete))
}

struct Hist<'a> {
    rules: &'a [Value],
    datas: &'a [Value],
    seen: BTreeMap<Pair, Observed>,
    specified_calls: usize,
    concurrent: usize,
}

impl<'a> Hist<'a> {
    fn norm(&self, p: Pair) -> Pair {
        (p.0 % self.rules.len(), p.1 % self.datas.len())
    }

    fn check_one(&mut self, p: Pair, got: Observed, what: &str) -> Result<(), String> {
        if against_model(&self.rules[p.0], &self.datas[p.1], &got, what)? {
            self.specified_calls += 1;
        }
        if let Some(prev) = self.seen.get(&p) {
            let (mut a, mut b) = (prev.lines.clone(), got.lines.clone());
            a.sort();
            b.sort();
            if !(same_out(&prev.out, &got.out) && a == b) {
                return Err(format!("{}: the same call gave {} {:?} earlier in this history and {} {:?} now: {}", what, prev.out.short(), prev.lines, got.out.short(), got.lines, fmt_case(&self.rules[p.0], &self.datas[p.1])));
            }
        } else {
            self.seen.insert(p, got);
        }
        Ok(())
    }

    fn batch(&mut self, op: &Value, what: &str, obs: &mut Obs) -> Result<(), String> {
        let threads: Vec<Vec<Pair>> = op["threads"]
            .as_array()
            .cloned()
            .unwrap_or_default()
            .iter()
            .map(|th| th.as_array().cloned().unwrap_or_default().iter().map(|c| self.norm((c[0].as_u64().unwrap_or(0) as usize, c[1].as_u64().unwrap_or(0) as usize))).collect())
            .collect();
        if threads.len() < 2 {
            return Ok(());
        }
        self.concurrent += 1;
        let (results, lines, complete) = run_batch(self.rules, self.datas, &threads, obs)?;
        if !complete {
            return Err(format!("{}: concurrent log output does not end with a newline (torn line): {:?}", what, lines.last()));
        }
        let mut expected_lines: Vec<String> = vec![];
        let mut lines_specified = true;
        for (calls, outs) in threads.iter().zip(results.iter()) {
            for (p, out) in calls.iter().zip(outs.iter()) {
                let (rule, data) = (&self.rules[p.0], &self.datas[p.1]);
                if let Out::Panic(m) = out {
                    return Err(format!("{}: PANIC in a concurrent call: {} for {}", what, m, fmt_case(rule, data)));
                }
                // each concurrent result equals the result in isolation (model) and the sequential result
                match specified(rule, data) {
                    Some((Some(v), trace)) => {
                        match out {
                            Out::Ok(w) if model::values_match(&v, w) => {}
                            other => return Err(format!("{}: a concurrent call differs from its result in isolation: expected {} got {} for {}", what, v, other.short(), fmt_case(rule, data))),
                        }
                        expected_lines.extend(trace);
                    }
                    Some((None, _)) => {
                        if !matches!(out, Out::Err(_)) {
                            return Err(format!("{}: a concurrent call should fail as in isolation, got {} for {}", what, out.short(), fmt_case(rule, data)));
                        }
                        lines_specified = false; // U6: lines of failing calls are not determined
                    }
                    None => lines_specified = false,
                }
                if let Some(prev) = self.seen.get(p) {
                    if !same_out(&prev.out, out) {
                        return Err(format!("{}: a concurrent call gave {} but the same call gave {} sequentially: {}", what, out.short(), prev.out.short(), fmt_case(rule, data)));
                    }
                }
            }
        }
        if lines_specified {
            let (mut a, mut b) = (expected_lines.clone(), lines.clone());
            a.sort();
            b.sort();
            if a != b {
                let missing: Vec<&String> = a.iter().filter(|l| !b.contains(l)).take(3).collect();
                let extra: Vec<&String> = b.iter().filter(|l| !a.contains(l)).take(3).collect();
                return Err(format!("{}: under concurrency stdout must be exactly the log lines, each intact: {} expected, {} captured; e.g. missing {:?}, unexpected {:?}", what, a.len(), b.len(), missing, extra));
            }
        }
        Ok(())
    }

    fn run_ops(&mut self, ops: &[Value], tag: &str, obs: &mut Obs) -> Result<(), String> {
        for (k, op) in ops.iter().enumerate() {
            let what = format!("{} step {}", tag, k);
            match op["t"].as_str().unwrap_or("call") {
                "batch" => self.batch(op, &what, obs)?,
                t => {
                    let p = self.norm((op["i"].as_u64().unwrap_or(0) as usize, op["j"].as_u64().unwrap_or(0) as usize));
                    let got = if t == "clones" {
                        let (r, d) = (self.rules[p.0].clone(), self.datas[p.1].clone());
                        call(&r, &d, obs, &what)?
                    } else {
                        call(&self.rules[p.0], &self.datas[p.1], obs, &what)?
                    };
                    self.check_one(p, got, &what)?;
                }
            }
        }
        Ok(())
    }
}

fn check_history(case: &Value, obs: &mut Obs) -> Result<(), String> {
    let rules: Vec<Value> = case["rules"].as_array().cloned().unwrap_or_default();
    let datas: Vec<Value> = case["datas"].as_array().cloned().unwrap_or_default();
    let ops: Vec<Value> = case["ops"].as_array().cloned().unwrap_or_default();
    if rules.is_empty() || datas.is_empty() {
        return Ok(());
    }
    let mut h = Hist { rules: &rules, datas: &datas, seen: BTreeMap::new(), specified_calls: 0, concurrent: 0 };
    // skip histories whose calls are too expensive for the model (inherent cost)
    for p in pairs_in(&ops) {
        let (i, j) = h.norm(p);
        if let (Res::Unspec("over_budget"), _) = model::eval(&rules[i], &datas[j]) {
            obs.skip("over_budget");
            return Ok(());
        }
    }
    let rules_before: Vec<String> = rules.iter().map(|r| r.to_string()).collect();
    let datas_before: Vec<String> = datas.iter().map(|r| r.to_string()).collect();
    h.run_ops(&ops, "history", obs)?;
    // permuted re-run: the same operations in reverse order must reproduce every result
    let reversed: Vec<Value> = ops.iter().rev().cloned().collect();
    h.run_ops(&reversed, "reversed history", obs)?;
    for (k, r) in rules.iter().enumerate() {
        if r.to_string() != rules_before[k] {
            return Err(format!("rule {} was modified by the history: {} -> {}", k, rules_before[k], r));
        }
    }
    for (k, d) in datas.iter().enumerate() {
        if d.to_string() != datas_before[k] {
            return Err(format!("data {} was modified by the history: {} -> {}", k, datas_before[k], d));
        }
    }
    // classes
    let pairs: Vec<Pair> = pairs_in(&ops).into_iter().map(|p| h.norm(p)).collect();
    let rule_meets_two = (0..rules.len()).any(|i| {
        let mut js: Vec<usize> = pairs.iter().filter(|p| p.0 == i).map(|p| p.1).collect();
        js.sort();
        js.dedup();
        js.len() >= 2
    });
    let data_meets_two = (0..datas.len()).any(|j| {
        let mut is: Vec<usize> = pairs.iter().filter(|p| p.1 == j).map(|p| p.0).collect();
        is.sort();
        is.dedup();
        is.len() >= 2
    });
    if h.concurrent > 0 && pairs.len() >= 4 {
        obs.nt("history with concurrent batches on shared values");
    } else if pairs.len() >= 4 && rule_meets_two && data_meets_two && h.specified_calls >= 4 {
        obs.nt("sequential history: rules shared across data and data across rules");
    } else {
        obs.class("short history");
    }
    Ok(())
}

fn op_strategy() -> BoxedStrategy<Value> {
    let pair = || (0usize..6, 0usize..6);
    prop_oneof![
        6 => pair().prop_map(|(i, j)| json!({"t": "call", "i": i, "j": j})),
        2 => pair().prop_map(|(i, j)| json!({"t": "clones", "i": i, "j": j})),
        1 => vec(vec(pair().prop_map(|(i, j)| json!([i, j])), 1..=4), 2..=8).prop_map(|threads| json!({"t": "batch", "threads": threads})),
    ]
    .boxed()
}

fn gen_history() -> BoxedStrategy<Value> {
    (vec(history_rules(), 3..=6), vec(history_data(), 3..=6), vec(op_strategy(), 0..=40)).prop_map(|(rules, datas, ops)| json!({"rules": rules, "datas": datas, "ops": ops})).boxed()
}

/// many threads logging multi-token values at once: every line must stay intact
fn gen_storm() -> BoxedStrategy<Value> {
    (vec(logging_rules(), 2..=4), vec(history_data(), 2..=3), 4usize..=8, 60usize..=200).prop_map(|(rules, datas, nthreads, per)| {
        let threads: Vec<Value> = (0..nthreads).map(|t| Value::Array((0..per).map(|k| json!([(t + k) % rules.len(), k % datas.len()])).collect())).collect();
        json!({"rules": rules, "datas": datas, "ops": [{"t": "batch", "threads": threads}]})
    }).boxed()
}

/// Deep rules evaluated by many threads at once: whatever bookkeeping the evaluator keeps per call (depth counters,
/// scratch space) must be per call - every concurrent result equals the sequential one.
fn check_deep_concurrent(case: &Value, obs: &mut Obs) -> Result<(), String> {
    let levels = case["levels"].as_u64().unwrap_or(40) as usize;
    let nthreads = case["threads"].as_u64().unwrap_or(8) as usize;
    let per = case["per"].as_u64().unwrap_or(10) as usize;
    let ops: Vec<String> = case["ops"].as_array().map(|a| a.iter().filter_map(|x| x.as_str().map(|s| s.to_string())).collect()).unwrap_or_default();
    let mut rule = case["core"].clone();
    for i in 0..levels {
        let op = ops.get(i % ops.len().max(1)).map(|s| s.as_str()).unwrap_or("!");
        rule = match op {
            "if" => json!({"if": [true, rule, 0]}),
            "and" => json!({"and": [1, rule]}),
            "cat" => json!({"cat": [rule]}),
            "map" => json!({"reduce": [{"map": [[1], rule]}, {"var": "current"}, 0]}),
            "!!" => json!({"!!": [rule]}),
            _ => json!({"!": [rule]}),
        };
    }
    let data = case["data"].clone();
    // must be deliverable as text (depth <= 128)
    if serde_json::from_str::<Value>(&rule.to_string()).is_err() {
        obs.class("deeper than text allows");
        return Ok(());
    }
    if let (Res::Unspec("over_budget"), _) = model::eval(&rule, &data) {
        obs.skip("over_budget");
        return Ok(());
    }
    let alone = call(&rule, &data, obs, "deep rule alone")?;
    against_model(&rule, &data, &alone, "deep rule alone")?;
    let rules = vec![rule];
    let datas = vec![data];
    let threads: Vec<Vec<Pair>> = (0..nthreads).map(|_| vec![(0usize, 0usize); per]).collect();
    let (results, _lines, _complete) = run_batch(&rules, &datas, &threads, obs)?;
    for (t, outs) in results.iter().enumerate() {
        for (k, out) in outs.iter().enumerate() {
            if !same_out(out, &alone.out) {
                return Err(format!("a {}-level rule gives {} alone but {} as call {} of thread {} while {} threads evaluate it concurrently: {}", levels, alone.out.short(), out.short(), k, t, nthreads, fmt_case(&rules[0], &datas[0])));
            }
        }
    }
    obs.nt(&format!("{} threads x depth {}-{}", nthreads, levels / 16 * 16, levels / 16 * 16 + 15));
    Ok(())
}

fn gen_deep_concurrent() -> BoxedStrategy<Value> {
    (30usize..=62, 4usize..=16, 5usize..=40, vec(select(vec!["!", "!!", "if", "and", "cat", "map"]), 1..=4), prop_oneof![Just(json!({"var": "a"})), Just(json!({"reduce": [{"var": "xs"}, {"+": [{"var": "current"}, {"var": "accumulator"}]}, 0]})), gen::scalars()], history_data())
        .prop_map(|(levels, threads, per, ops, core, data)| json!({"levels": levels, "threads": threads, "per": per, "ops": ops, "core": core, "data": data}))
        .boxed()
}

/// Rule and data are parsed from text right before every call and dropped right after it, for sequences of values of the
/// same shape and byte length: state keyed on addresses / lengths of earlier (freed) inputs would leak between calls.
fn check_fresh_values(case: &Value, obs: &mut Obs) -> Result<(), String> {
    let rule_texts: Vec<String> = case["rules"].as_array().map(|a| a.iter().map(|r| r.to_string()).collect()).unwrap_or_default();
    let data_texts: Vec<String> = case["datas"].as_array().map(|a| a.iter().map(|r| r.to_string()).collect()).unwrap_or_default();
    let order: Vec<(usize, usize)> = case["order"].as_array().map(|a| a.iter().map(|p| (p[0].as_u64().unwrap_or(0) as usize, p[1].as_u64().unwrap_or(0) as usize)).collect()).unwrap_or_default();
    if rule_texts.is_empty() || data_texts.is_empty() {
        return Ok(());
    }
    let mut specified = 0;
    for (k, (i, j)) in order.iter().enumerate() {
        let (rt, dt) = (&rule_texts[i % rule_texts.len()], &data_texts[j % data_texts.len()]);
        let got = {
            // fresh allocations for this call only
            let rule: Value = serde_json::from_str(rt).map_err(|e| format!("oracle_broken: {}", e))?;
            let data: Value = serde_json::from_str(dt).map_err(|e| format!("oracle_broken: {}", e))?;
            let got = call(&rule, &data, obs, "fresh values")?;
            if against_model(&rule, &data, &got, &format!("call {} on freshly parsed values (after {} earlier calls whose inputs were freed)", k, k))? {
                specified += 1;
            }
            got
        };
        drop(got);
    }
    if specified >= 3 {
        obs.nt("sequence of calls on freshly allocated, freed, same-shaped inputs");
    } else {
        obs.class("short or unspecified sequence");
    }
    Ok(())
}

fn gen_fresh_values() -> BoxedStrategy<Value> {
    // families of strings with identical byte length but different content, as whole data and as members
    let family = select(vec![
        vec!["héllo", "hèllo", "hëllo", "héllö"],
        vec!["nähe", "über", "öde!", "añoz"],
        vec!["αxxxxxxxxxx", "βxxxxxxxxxx", "γxxxxxxxxxx"],
        vec!["日本語", "中文字", "한국어"],
        vec!["a😀b", "c😁d", "e😂f"],
        vec!["abc", "abd", "xyz"],
    ]);
    let rule = prop_oneof![
        (-3i64..4).prop_map(|i| json!({"var": i})),
        (-3i64..4, -3i64..4).prop_map(|(i, k)| json!({"cat": [{"var": i}, {"var": k}]})),
        (-3i64..4).prop_map(|i| json!({"var": format!("s.{}", i)})),
        (-3i64..4, 0i64..3).prop_map(|(i, l)| json!({"substr": [{"var": "s"}, i, l]})),
        Just(json!({"some": [{"var": "s"}, {"in": [{"var": ""}, "éèüβ本😁"]}]})),
        Just(json!({"cat": [{"var": "s"}, "|", {"var": ""}]})),
        Just(json!({"+": [{"var": "n"}, 1]})),
        Just(json!({"==": [{"var": "s"}, {"var": "t"}]})),
        Just(json!({"in": [{"var": "s"}, [{"var": "t"}, "héllo", "über"]]})),
        Just(json!({"<": [{"var": "s"}, {"var": "t"}]})),
    ];
    (family, vec(rule, 1..=4), vec((0usize..4, 0usize..8), 4..=24), any::<bool>())
        .prop_map(|(fam, rules, order, wrap)| {
            let mut datas: Vec<Value> = vec![];
            for (k, s) in fam.iter().enumerate() {
                if wrap {
                    datas.push(json!({"s": s, "t": fam[(k + 1) % fam.len()], "n": s.len()}));
                } else {
                    datas.push(json!(s));
                }
            }
            let order: Vec<Value> = order.into_iter().map(|(i, j)| json!([i, j])).collect();
            json!({"rules": rules, "datas": datas, "order": order})
        })
        .boxed()
}

/// Many threads, each resolving its own set of distinct paths / strings on shared data at the same moment: shared tables
/// with more keys in flight than slots, or with a lookup split over two critical sections, mix the threads' answers.
fn check_concurrent_keys(case: &Value, obs: &mut Obs) -> Result<(), String> {
    let nthreads = case["threads"].as_u64().unwrap_or(6) as usize;
    let per = case["per"].as_u64().unwrap_or(12) as usize;
    let rounds = case["rounds"].as_u64().unwrap_or(20) as usize;
    let family = case["family"].as_u64().unwrap_or(0);
    let mut shared = serde_json::Map::new();
    let mut rules: Vec<Value> = vec![];
    let mut threads: Vec<Vec<Pair>> = vec![];
    for t in 0..nthreads {
        let mut calls = vec![];
        for k in 0..per {
            let key = format!("t{}k{}", t, k);
            shared.insert(key.clone(), json!({"leaf": key, "n": t * 100 + k, "s": format!("{}px", t * 100 + k)}));
            let rule = match (family + k as u64) % 5 {
                0 => json!({"var": format!("{}.leaf", key)}),
                1 => json!({"+": [{"var": format!("{}.s", key)}, 0]}),
                2 => json!({"-": [format!(" {} ", t * 100 + k), {"var": format!("{}.n", key)}]}),
                3 => json!({"missing": [format!("{}.leaf", key), format!("{}.nope", key)]}),
                _ => json!({"cat": [{"var": format!("{}.leaf", key)}, "|", {"var": [format!("{}.zz", key), format!("d{}", k)]}]}),
            };
            rules.push(rule);
            for _ in 0..rounds {
                calls.push((rules.len() - 1, 0usize));
            }
        }
        threads.push(calls);
    }
    let datas = vec![Value::Object(shared)];
    // sequential reference first (and against the model)
    let mut reference: Vec<Out> = vec![];
    for (i, r) in rules.iter().enumerate() {
        let got = call(r, &datas[0], obs, "sequential reference")?;
        against_model(r, &datas[0], &got, &format!("sequential reference {}", i))?;
        reference.push(got.out);
    }
    // interleave each thread's calls over its own rules
    let threads: Vec<Vec<Pair>> = threads
        .into_iter()
        .map(|calls| {
            let n = calls.len();
            (0..n).map(|i| calls[(i * (per.max(1) * 7 + 1)) % n]).collect()
        })
        .collect();
    let (results, _lines, _c) = run_batch(&rules, &datas, &threads, obs)?;
    for (t, (calls, outs)) in threads.iter().zip(results.iter()).enumerate() {
        for (p, out) in calls.iter().zip(outs.iter()) {
            if !same_out(out, &reference[p.0]) {
                return Err(format!("thread {} got {} for a call that gives {} sequentially while {} threads resolve {} distinct keys each on shared data: rule {}", t, out.short(), reference[p.0].short(), nthreads, per, rules[p.0]));
            }
        }
    }
    obs.nt(&format!("{} threads x {} distinct keys", nthreads, per));
    Ok(())
}

fn gen_concurrent_keys() -> BoxedStrategy<Value> {
    (2usize..=12, 4usize..=24, 5usize..=40, 0u64..5).prop_map(|(t, per, rounds, family)| json!({"threads": t, "per": per, "rounds": rounds, "family": family})).boxed()
}

/// Working-set sweep: W hot keys touched twice, one new key, the hot set again - for every W up to 300.  Whatever capacity a
/// cache or pool has, some W sits exactly at its boundary, with the newest entry also the least recently used one.
pub fn sweep_calls(w: usize, kind: u64) -> Vec<(Value, Value)> {
    let item = |k: usize| -> (Value, Value) {
        match kind % 6 {
            0 => (json!({"-": [format!("{}", 1000 + k), 0]}), Value::Null),                          // Number-style conversion of a distinct string
            1 => (json!({"+": [format!("{}px", 1000 + k)]}), Value::Null),                           // parseFloat-style
            2 => (json!({"var": format!("k{}.v", k)}), json!({format!("k{}", k): {"v": k}})),        // distinct dotted paths
            3 => (json!({"<": [format!(" {} ", k), k + 1]}), Value::Null),                           // comparison with conversion
            4 => (json!({"cat": [{"var": "s"}, k]}), json!({"s": format!("s{}", k)})),               // distinct rules
            _ => (json!({"==": [{"var": ""}, format!("{}", k)]}), json!(k)),                          // distinct data against distinct strings
        }
    };
    let mut calls = vec![];
    for k in 0..w {
        calls.push(item(k));
    }
    for k in 0..w {
        calls.push(item(k));
    }
    calls.push(item(w));
    for k in 0..=w {
        calls.push(item(k));
    }
    calls.push(item(w + 1));
    for k in (0..=w + 1).rev() {
        calls.push(item(k));
    }
    calls
}

fn check_sweep(case: &Value, obs: &mut Obs) -> Result<(), String> {
    let w = case["w"].as_u64().unwrap_or(1) as usize;
    let kind = case["kind"].as_u64().unwrap_or(0);
    for (i, (rule, data)) in sweep_calls(w, kind).iter().enumerate() {
        let got = call(rule, data, obs, "working-set sweep")?;
        against_model(rule, data, &got, &format!("call {} of a working-set sweep with {} hot keys (kind {})", i, w, kind))?;
    }
    obs.nt(&format!("sweep kind {} W {}", kind, if w < 32 { "<32" } else if w < 64 { "32-63" } else if w < 128 { "64-127" } else if w < 256 { "128-255" } else { "256+" }));
    Ok(())
}

fn fixed_sweeps() -> Vec<Value> {
    let mut out = vec![];
    for kind in 0..6u64 {
        for w in 1..=300usize {
            out.push(json!({"w": w, "kind": kind}));
        }
        for w in [511usize, 512, 513, 1023, 1024, 1025] {
            out.push(json!({"w": w, "kind": kind}));
        }
    }
    out
}

/// One long history over many *distinct* rules and data (counters expanded from templates), each evaluated, then
/// revisited in another order: state that only goes wrong at a capacity boundary, on an eviction or collision path,
/// or after many calls has thousands of distinct keys to trip over.
fn check_long_history(case: &Value, obs: &mut Obs) -> Result<(), String> {
    let n = case["n"].as_u64().unwrap_or(100) as usize;
    let stride = (case["stride"].as_u64().unwrap_or(7) as usize) | 1;
    let family = case["family"].as_u64().unwrap_or(0);
    let make = |k: usize| -> (Value, Value) {
        let ks = k.to_string();
        match (family + k as u64) % 10 {
            0 => (json!({"+": [{"var": "a"}, k]}), json!({"a": k % 7})),
            1 => (json!({"cat": ["k", k, {"var": "s"}]}), json!({"s": format!("s{}", k % 13)})),
            2 => (json!({"var": format!("k{}", k)}), json!({format!("k{}", k): k, format!("k{}", k + 1): "other"})),
            3 => (json!({"-": [format!("{}px", k), 0]}), Value::Null),
            4 => (json!({"+": [format!("{}px", k)]}), Value::Null),
            5 => (json!({"==": [format!(" {} ", k), k]}), Value::Null),
            6 => (json!({"var": (k % 5)}), json!(format!("é{}ü", ks))),
            7 => (json!({"substr": [format!("日本{}語", ks), (k % 4) as i64 - 2]}), Value::Null),
            8 => (json!({"in": [k, {"var": "xs"}]}), json!({"xs": [k + 1, k, format!("{}", k)]})),
            _ => (json!({"if": [{"<": [{"var": "a"}, k]}, format!("lt{}", k), {"var": "a"}]}), json!({"a": k / 2})),
        }
    };
    let mut first: Vec<Observed> = Vec::with_capacity(n);
    for k in 0..n {
        let (rule, data) = make(k);
        let got = call(&rule, &data, obs, "long history, first visit")?;
        against_model(&rule, &data, &got, &format!("long history, first visit of item {} of {}", k, n))?;
        first.push(got);
    }
    // revisit in a permuted order (stride coprime with n when n is a power of two minus ...: any odd stride, n forced even+1)
    let m = if n % 2 == 0 { n + 1 } else { n };
    let mut k = 0usize;
    for step in 0..m {
        k = (k + stride) % m;
        if k >= n {
            continue;
        }
        let (rule, data) = make(k);
        let got = call(&rule, &data, obs, "long history, revisit")?;
        if !same_out(&got.out, &first[k].out) || got.lines != first[k].lines {
            return Err(format!("item {} of a {}-item history gave {} on its first visit but {} when revisited after {} further calls: {}", k, n, first[k].out.short(), got.out.short(), n - k + step, fmt_case(&rule, &data)));
        }
    }
    obs.nt(&format!("long history of {} distinct calls", if n >= 2048 { "2048+" } else if n >= 1024 { "1024-2047" } else if n >= 256 { "256-1023" } else { "under 256" }));
    Ok(())
}

fn gen_long_history() -> BoxedStrategy<Value> {
    (prop_oneof![2 => 16usize..300, 2 => 300usize..1500, 1 => 1500usize..5000, 1 => select(vec![255usize, 256, 257, 511, 512, 513, 1023, 1024, 1025, 2047, 2048, 2049, 4096, 4097])], 1u64..64, 0u64..10)
        .prop_map(|(n, stride, family)| json!({"n": n, "stride": stride, "family": family}))
        .boxed()
}

/// the same calls made as the only call of a fresh process (the CLI) must give the same value and the same log lines
fn check_fresh_process(case: &Value, obs: &mut Obs) -> Result<(), String> {
    // the fresh process receives texts: evaluate in-process on exactly what those texts deliver
    let stable = |key: &str| -> Option<Vec<Value>> { case[key].as_array().cloned().unwrap_or_default().iter().map(via_text).collect() };
    let (rules, datas) = match (stable("rules"), stable("datas")) {
        (Some(r), Some(d)) => (r, d),
        _ => {
            obs.skip("text-unstable-float");
            return Ok(());
        }
    };
    let ops: Vec<Value> = case["ops"].as_array().cloned().unwrap_or_default();
    if rules.is_empty() || datas.is_empty() {
        return Ok(());
    }
    let bin = match cli::bin("dev") {
        Some(b) => b,
        None => return Err("oracle_broken: CLI binary missing (JLV_CLI_DEV)".into()),
    };
    // warm the in-process library with the whole history first, then compare each distinct call with a fresh process
    let mut pairs: Vec<Pair> = pairs_in(&ops).into_iter().map(|p| (p.0 % rules.len(), p.1 % datas.len())).collect();
    for p in &pairs {
        if let (Res::Unspec("over_budget"), _) = model::eval(&rules[p.0], &datas[p.1]) {
            obs.skip("over_budget");
            return Ok(());
        }
    }
    let mut in_process: BTreeMap<Pair, Observed> = BTreeMap::new();
    for p in &pairs {
        let got = call(&rules[p.0], &datas[p.1], obs, "warm-up")?;
        in_process.insert(*p, got);
    }
    pairs.sort();
    pairs.dedup();
    let mut compared = 0;
    for p in pairs.iter().take(4) {
        let got = call(&rules[p.0], &datas[p.1], obs, "after the history")?;
        let fresh = cli::run(&bin, &rules[p.0].to_string(), &cli::Channel::Arg(datas[p.1].to_string()))?;
        obs.evals += 1;
        if fresh.timed_out {
            return Err(format!("the fresh process did not finish for {}", fmt_case(&rules[p.0], &datas[p.1])));
        }
        let stdout = String::from_utf8_lossy(&fresh.stdout).to_string();
        match &got.out {
            Out::Ok(v) => {
                if fresh.code != Some(0) {
                    return Err(format!("after a history the in-process call gives {} but the same call as the only call of a fresh process exits {:?}: {}", v, fresh.code, fmt_case(&rules[p.0], &datas[p.1])));
                }
                cli_stdout_matches(&stdout, &got.lines, Some(v)).map_err(|e| format!("after a history the in-process call gives {} {:?} but the same call as the only call of a fresh process differs: {}: {}", v, got.lines, e, fmt_case(&rules[p.0], &datas[p.1])))?;
            }
            Out::Err(_) => {
                if fresh.code == Some(0) {
                    return Err(format!("after a history the in-process call fails but a fresh process succeeds with {:?}: {}", stdout, fmt_case(&rules[p.0], &datas[p.1])));
                }
            }
            Out::Panic(m) => return Err(format!("PANIC {}", m)),
        }
        compared += 1;
    }
    if compared > 0 {
        obs.nt("calls compared with a fresh process");
    }
    Ok(())
}

fn gen_fresh() -> BoxedStrategy<Value> {
    (vec(history_rules(), 2..=4), vec(history_data(), 2..=3), vec((0usize..4, 0usize..3).prop_map(|(i, j)| json!({"t": "call", "i": i, "j": j})), 3..=10)).prop_map(|(rules, datas, ops)| json!({"rules": rules, "datas": datas, "ops": ops})).boxed()
}


// ------------------------------------------------------------------------------------------------ process environment

const ENV_VALUES: &[&str] = &["1", "true", "0", "strict", "js", "php", "compat", "debug", "off", ""];

fn env_names(bin: &str) -> Vec<String> {
    static CACHE: std::sync::Mutex<Option<(String, Vec<String>)>> = std::sync::Mutex::new(None);
    let mut g = CACHE.lock().unwrap();
    if let Some((b, v)) = &*g {
        if b == bin {
            return v.clone();
        }
    }
    let v = cli::candidate_env_names(bin);
    *g = Some((bin.to_string(), v.clone()));
    v
}

/// The same call in a fresh process under the ordinary environment and under a hostile one (cleared, then every
/// ALL-CAPS name found in the binary set to one value, Turkish locale, a far time zone, no HOME, another working
/// directory): exit status and stdout must be identical, and equal to what the library gives in-process.
fn check_environment(case: &Value, obs: &mut Obs) -> Result<(), String> {
    let (rule, data) = match (via_text(rule_of(case)), via_text(data_of(case))) {
        (Some(r), Some(d)) => (r, d),
        _ => {
            obs.skip("text-unstable-float");
            return Ok(());
        }
    };
    if let (Res::Unspec("over_budget"), _) = model::eval(&rule, &data) {
        obs.skip("over_budget");
        return Ok(());
    }
    let profile = if case["release"].as_bool().unwrap_or(false) { "release" } else { "dev" };
    let bin = match cli::bin(profile) {
        Some(b) => b,
        None => return Err("oracle_broken: CLI binary missing (JLV_CLI_DEV / JLV_CLI_RELEASE)".into()),
    };
    let names = env_names(&bin);
    if names.is_empty() {
        return Err("oracle_broken: no candidate environment names found in the CLI binary".into());
    }
    let value = ENV_VALUES[case["value"].as_u64().unwrap_or(0) as usize % ENV_VALUES.len()];
    let mut vars: Vec<(String, String)> = names.iter().map(|n| (n.clone(), value.to_string())).collect();
    for (k, v) in [("LANG", "tr_TR.UTF-8"), ("LC_ALL", "tr_TR.UTF-8"), ("TZ", "Pacific/Kiritimati"), ("HOME", "/nonexistent"), ("TMPDIR", "/nonexistent"), ("COLUMNS", "1"), ("NO_COLOR", "1"), ("RUST_LOG", "trace")] {
        vars.retain(|(n, _)| n != k);
        vars.push((k.to_string(), v.to_string()));
    }
    let env = cli::Env { clear: true, vars, cwd: "/".to_string() };
    let got = call(&rule, &data, obs, "in-process")?;
    let plain = cli::run(&bin, &rule.to_string(), &cli::Channel::Arg(data.to_string()))?;
    let hostile = cli::run_env(&bin, &rule.to_string(), &cli::Channel::Arg(data.to_string()), Some(&env))?;
    obs.evals += 2;
    if plain.timed_out || hostile.timed_out {
        return Err(format!("the jsonlogic command did not finish ({}) for {}", if hostile.timed_out { "hostile environment" } else { "ordinary environment" }, fmt_case(&rule, &data)));
    }
    if plain.code != hostile.code || plain.stdout != hostile.stdout {
        return Err(format!(
            "the result depends on the process environment: exit {:?} stdout {:?} in the ordinary environment, exit {:?} stdout {:?} with every ALL-CAPS name of the binary set to {:?}, tr_TR locale, another time zone and working directory ({} build): {}",
            plain.code,
            String::from_utf8_lossy(&plain.stdout).chars().take(200).collect::<String>(),
            hostile.code,
            String::from_utf8_lossy(&hostile.stdout).chars().take(200).collect::<String>(),
            value,
            profile,
            fmt_case(&rule, &data)
        ));
    }
    let stdout = String::from_utf8_lossy(&hostile.stdout).to_string();
    match &got.out {
        Out::Ok(v) => {
            if hostile.code != Some(0) {
                return Err(format!("in-process the library gives {} but the command exits {:?}: {}", v, hostile.code, fmt_case(&rule, &data)));
            }
            cli_stdout_matches(&stdout, &got.lines, Some(v)).map_err(|e| format!("hostile environment: {}: {}", e, fmt_case(&rule, &data)))?;
        }
        Out::Err(_) => {
            if hostile.code == Some(0) {
                return Err(format!("in-process the library fails but the command succeeds with {:?}: {}", stdout, fmt_case(&rule, &data)));
            }
        }
        Out::Panic(m) => return Err(format!("PANIC {}", m)),
    }
    obs.nt(&format!("environment value {:?}, {} build", value, profile));
    Ok(())
}

/// one probe per operator family on operands where other languages' or implementations' semantics differ from the
/// listed ones (the place a mode switch would show), x every environment value x both builds
fn fixed_env_probes() -> Vec<Value> {
    let data = json!({"a": {"b": [1, "2", null]}, "s": "héllo", "z": "0", "e": "", "n": null, "xs": [0, "0", "", " ", [], [0], {}]});
    let probes = vec![
        json!({"!!": ["0"]}), json!({"!!": [[]]}), json!({"!!": [" "]}), json!({"!": [{}]}), json!({"if": ["0", 1, 2]}), json!({"?:": [[], 1, 2]}), json!({"and": ["0", [], 1]}), json!({"or": [0, "", []]}),
        json!({"==": ["1", 1]}), json!({"==": [null, 0]}), json!({"==": ["a", "A"]}), json!({"==": ["1", "1.0"]}), json!({"!=": [[1], "1"]}), json!({"===": [1, 1.0]}), json!({"<": ["10", "9"]}), json!({"<": ["10", 9]}),
        json!({"<=": [null, 0]}), json!({">": ["b", "a"]}), json!({"<": [1, 2, 3]}), json!({"+": ["1", "2"]}), json!({"+": ["2px", 3]}), json!({"-": ["5"]}), json!({"*": ["2", "3"]}), json!({"/": [1, 3]}), json!({"%": [-7, 3]}),
        json!({"max": ["2", 10]}), json!({"min": [[], 1]}), json!({"cat": [null, 1.0, 1e21, -0.0, [1, [2]], {}]}), json!({"substr": [{"var": "s"}, 1, 2]}), json!({"substr": ["abc", -2]}), json!({"in": ["a", "ABC"]}), json!({"in": [1, ["1", 1.0]]}),
        json!({"merge": [null, [1], [[2]]]}), json!({"var": "a.b.1"}), json!({"var": ["x", "d"]}), json!({"var": "n"}), json!({"var": ["n", 5]}), json!({"missing": ["a", "e", "x", ""]}), json!({"missing_some": [1, ["a", "x"]]}),
        json!({"map": [[1, "2"], {"*": [{"var": ""}, 2]}]}), json!({"filter": [{"var": "xs"}, {"var": ""}]}), json!({"reduce": [[1, 2], {"+": [{"var": "current"}, {"var": "accumulator"}]}, 0]}), json!({"all": ["", true]}),
        json!({"some": [{"var": "xs"}, {"var": ""}]}), json!({"none": [[], true]}), json!({"log": "x"}), json!({"cat": [{"log": [{"var": "z"}]}]}), json!({"unknown_operator": 1}), json!({"==": [1]}),
    ];
    let mut out = vec![];
    for (i, r) in probes.iter().enumerate() {
        for v in 0..ENV_VALUES.len() {
            out.push(json!({"rule": r, "data": data, "release": (i + v) % 2 == 0, "value": v}));
        }
    }
    out
}

fn gen_environment() -> BoxedStrategy<Value> {
    let broad = rules::rooted(rules::Cfg::new(&["!", "!!", "if", "and", "or", "==", "!=", "===", "<", "<=", "+", "-", "*", "/", "%", "max", "cat", "substr", "in", "merge", "var", "missing", "missing_some", "map", "filter", "reduce", "all", "some", "none"]).leaf(gen::cmp_values()).poison(0).bad_arity(5).depth(2));
    (prop_oneof![1 => history_rules(), 3 => broad], prop_oneof![1 => history_data(), 1 => gen::data_docs()], any::<bool>(), 0u64..10).prop_map(|(r, d, rel, v)| json!({"rule": r, "data": d, "release": rel, "value": v})).boxed()
}

pub fn property() -> Property {
    Property {
        id: "C17",
        subs: vec![
            Sub {
                name: "environment",
                about: "the same call as the only call of a fresh process (jsonlogic command, dev and release builds) under the ordinary environment and under a hostile one - environment cleared, then every ALL-CAPS identifier found in the binary's own bytes (the names a program looks up are its string constants) set to one of 1 / true / 0 / strict / js / php / compat / debug / off / empty, Turkish locale, a far time zone, HOME and TMPDIR nonexistent, working directory / : exit status and stdout must be identical in both and equal to the in-process result and log lines; generated rules over all operator families with corner operands, plus 49 fixed probes (one per operator family on operands where other languages' or implementations' semantics differ) x every value. Evaluation is a function of rule and data only, not of the process environment.",
                nontrivial: "every compared case.",
                strategy: Some(gen_environment),
                fixed: Some(fixed_env_probes),
                fixed_exhaustive: false,
                check: check_environment,
                quick: 800,
                thorough: 24_000,
                small_stack: false,
            },
            Sub {
                name: "histories",
                about: "a pool of 3-6 rules (conversion-sensitive arithmetic / comparisons over a small shared set of strings, logging rules, general rules, erroring rules) and 3-6 data values, and a sequence of 0-40 operations interpreted against the real library: Call(i,j), CallOnClones(i,j), Batch(2-8 threads with per-thread call lists, released by a barrier, sharing &Value); the worker process is never reset between histories. Invariants after every step: the result equals the reference semantics (= the result in isolation) and every other occurrence of the same call in the history and in its reversed re-run; rules and data serialise identically before and after; stdout is exactly one intact line per evaluated log (multiset under concurrency); stderr stays empty. The whole history shrinks as one value.",
                nontrivial: "at least 4 calls in which some rule meets two data and some datum meets two rules (>= 4 of them specified by the model), or a concurrent batch on shared values.",
                strategy: Some(gen_history),
                fixed: None,
                fixed_exhaustive: false,
                check: check_history,
                quick: 20_000,
                thorough: 1_000_000,
                small_stack: false,
            },
            Sub {
                name: "log_storm",
                about: "4-8 threads each making 60-200 calls of logging rules with multi-token operands (arrays, objects, strings with line breaks) at the same moment: the captured stdout must split into exactly the expected lines, none torn or interleaved.",
                nontrivial: "every case (concurrent batch).",
                strategy: Some(gen_storm),
                fixed: None,
                fixed_exhaustive: false,
                check: check_history,
                quick: 160,
                thorough: 8_000,
                small_stack: false,
            },
            Sub {
                name: "deep_concurrent",
                about: "a rule nested 30-62 operator levels (!, !!, if, and, cat, map+reduce towers; deliverable as text) evaluated alone and then by 4-16 threads x 5-40 calls at the same moment: every concurrent result must equal the isolated one (and the model).",
                nontrivial: "every case.",
                strategy: Some(gen_deep_concurrent),
                fixed: None,
                fixed_exhaustive: false,
                check: check_deep_concurrent,
                quick: 240,
                thorough: 12_000,
                small_stack: false,
            },
            Sub {
                name: "fresh_values",
                about: "sequences of 4-24 calls in which rule and data are parsed from text immediately before each call and dropped immediately after it, over families of non-ASCII strings of identical byte length (as whole data or as members) and rules that index / slice / search / compare them: every call must equal the reference semantics, whatever was allocated and freed before.",
                nontrivial: "at least three specified calls in the sequence.",
                strategy: Some(gen_fresh_values),
                fixed: None,
                fixed_exhaustive: false,
                check: check_fresh_values,
                quick: 6_000,
                thorough: 300_000,
                small_stack: false,
            },
            Sub {
                name: "working_set_sweep",
                about: "for every W in 1..300 (and 511-513, 1023-1025) and six kinds of keyed work (Number-style and parseFloat-style conversion of distinct strings, distinct dotted paths, comparisons, distinct rules, distinct data): W hot items touched twice, one new item, the hot set again, another new item, everything in reverse - every call against the model; whatever capacity some cache has, one W sits exactly on its boundary.",
                nontrivial: "every case.",
                strategy: None,
                fixed: Some(fixed_sweeps),
                fixed_exhaustive: false,
                check: check_sweep,
                quick: 0,
                thorough: 0,
                small_stack: false,
            },
            Sub {
                name: "concurrent_keys",
                about: "2-12 threads, each making 5-40 rounds of calls over its own 4-24 distinct paths / numeric strings / missing-key lists on one shared data object, released together; every result must equal the sequential reference (which is checked against the model).",
                nontrivial: "every case.",
                strategy: Some(gen_concurrent_keys),
                fixed: None,
                fixed_exhaustive: false,
                check: check_concurrent_keys,
                quick: 240,
                thorough: 12_000,
                small_stack: false,
            },
            Sub {
                name: "long_history",
                about: "one long history of 16-5000 *distinct* calls (ten templates expanded with a counter: arithmetic on data, cat, var on per-item keys, parseFloat- and Number-style conversion of per-item strings, string indexing and slicing of non-ASCII text, in, if) each checked against the model, then all revisited in a permuted order: every revisit must reproduce the first visit; sizes concentrate around 256 / 512 / 1024 / 2048 / 4096.",
                nontrivial: "every case (classified by length).",
                strategy: Some(gen_long_history),
                fixed: None,
                fixed_exhaustive: false,
                check: check_long_history,
                quick: 480,
                thorough: 24_000,
                small_stack: false,
            },
            Sub {
                name: "fresh_process",
                about: "after warming the in-process library with a history, up to four of its calls are repeated in-process and as the only call of a fresh process (the jsonlogic binary): value line and log lines must be identical.",
                nontrivial: "at least one call compared with a fresh process.",
                strategy: Some(gen_fresh),
                fixed: None,
                fixed_exhaustive: false,
                check: check_fresh_process,
                quick: 320,
                thorough: 12_000,
                small_stack: false,
            },
        ],
        assumptions: vec![
            "the harness owns the call sequences, not the OS schedule: thread interleavings are sampled (barrier-released scoped threads), not enumerated",
            "the reference model is the definition of 'result in isolation'; a fresh process is used as a second, model-free witness",
            "U6: log lines of failing calls are not compared",
        ],
    }
}
