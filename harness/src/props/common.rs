//! Helpers shared by the property modules: the model differential and small utilities.

use crate::imp::{self, Out, Traced};
use crate::model::{self, coerce, Ctx, Res};
use crate::runner::Obs;
use serde_json::{json, Value};

#[derive(Clone, Copy, PartialEq, Eq, Debug)]
pub enum TraceMode {
    /// exact order (only warranted inside if / ?: / and / or chains: C05)
    Exact,
    /// multiset of log lines (zone U13)
    Multiset,
    None,
}

pub fn rule_of(case: &Value) -> &Value {
    &case["rule"]
}
pub fn data_of(case: &Value) -> &Value {
    &case["data"]
}

pub fn op1(name: &str, a: &Value) -> Value {
    let mut m = serde_json::Map::new();
    m.insert(name.to_string(), json!([a]));
    Value::Object(m)
}
pub fn op2(name: &str, a: &Value, b: &Value) -> Value {
    let mut m = serde_json::Map::new();
    m.insert(name.to_string(), json!([a, b]));
    Value::Object(m)
}
pub fn opn(name: &str, args: &[Value]) -> Value {
    let mut m = serde_json::Map::new();
    m.insert(name.to_string(), Value::Array(args.to_vec()));
    Value::Object(m)
}
pub fn op_raw(name: &str, operand: Value) -> Value {
    let mut m = serde_json::Map::new();
    m.insert(name.to_string(), operand);
    Value::Object(m)
}

pub fn type_class(v: &Value) -> &'static str {
    match v {
        Value::Null => "null",
        Value::Bool(_) => "bool",
        Value::Number(_) => "number",
        Value::String(_) => "string",
        Value::Array(_) => "array",
        Value::Object(_) => "object",
    }
}

pub fn fmt_case(rule: &Value, data: &Value) -> String {
    format!("rule {} on data {}", rule, data)
}

/// No panic; nothing on stderr; stdout made of complete lines.
pub fn sanity(t: &Traced, rule: &Value, data: &Value) -> Result<(), String> {
    if let Out::Panic(m) = &t.out {
        return Err(format!("PANIC ({}) evaluating {}", m, fmt_case(rule, data)));
    }
    if !t.stderr.is_empty() {
        return Err(format!("wrote to stderr ({:?}) evaluating {}", String::from_utf8_lossy(&t.stderr), fmt_case(rule, data)));
    }
    if !t.complete {
        return Err(format!("stdout does not end with a newline after evaluating {}", fmt_case(rule, data)));
    }
    Ok(())
}

fn multiset_eq(a: &[String], b: &[String]) -> bool {
    let mut x = a.to_vec();
    let mut y = b.to_vec();
    x.sort();
    y.sort();
    x == y
}

pub struct Diff {
    pub model: Res,
    pub ctx: Ctx,
    pub out: Out,
    pub lines: Vec<String>,
}

/// Evaluate with the model and the implementation and demand agreement wherever the model is Ok / Err.
pub fn diff(rule: &Value, data: &Value, obs: &mut Obs, mode: TraceMode) -> Result<Diff, String> {
    let (m, ctx) = model::eval(rule, data);
    if let Res::Unspec("over_budget") = m {
        obs.skip("over_budget");
        return Ok(Diff { model: m, ctx, out: Out::Err("not evaluated: over the model's work budget".into()), lines: vec![] });
    }
    let t = imp::apply_traced(rule, data);
    obs.evals += 1;
    sanity(&t, rule, data)?;
    match &m {
        Res::Unspec(z) => {
            obs.skip(z);
        }
        Res::Err => {
            if let Out::Ok(v) = &t.out {
                return Err(format!("expected an error, got Ok({}) for {}", v, fmt_case(rule, data)));
            }
        }
        Res::Ok(expected) => match &t.out {
            Out::Ok(actual) => {
                if !model::values_match(expected, actual) {
                    return Err(format!("expected {} got {} for {}", expected, actual, fmt_case(rule, data)));
                }
                let ok = match mode {
                    TraceMode::Exact => ctx.trace == t.lines,
                    TraceMode::Multiset => multiset_eq(&ctx.trace, &t.lines),
                    TraceMode::None => true,
                };
                if !ok {
                    return Err(format!("log trace differs: expected {:?} got {:?} ({:?}) for {}", ctx.trace, t.lines, mode, fmt_case(rule, data)));
                }
            }
            Out::Err(e) => {
                return Err(format!("expected {} got Err({}) for {}", expected, e.chars().take(160).collect::<String>(), fmt_case(rule, data)));
            }
            Out::Panic(_) => unreachable!(),
        },
    }
    Ok(Diff { model: m, ctx, out: t.out, lines: t.lines })
}

/// Plain evaluation (panic = violation), returning Some(value) for Ok and None for Err.
pub fn run(rule: &Value, data: &Value, obs: &mut Obs) -> Result<Option<Value>, String> {
    let t = imp::apply_traced(rule, data);
    obs.evals += 1;
    sanity(&t, rule, data)?;
    match t.out {
        Out::Ok(v) => Ok(Some(v)),
        _ => Ok(None),
    }
}

pub fn run_traced(rule: &Value, data: &Value, obs: &mut Obs) -> Result<(Option<Value>, Vec<String>), String> {
    let t = imp::apply_traced(rule, data);
    obs.evals += 1;
    sanity(&t, rule, data)?;
    match t.out {
        Out::Ok(v) => Ok((Some(v), t.lines)),
        _ => Ok((None, t.lines)),
    }
}

pub fn expect_bool(rule: &Value, data: &Value, want: bool, obs: &mut Obs, why: &str) -> Result<(), String> {
    match run(rule, data, obs)? {
        Some(Value::Bool(b)) if b == want => Ok(()),
        other => Err(format!("{}: expected {} got {:?} for {}", why, want, other.map(|v| v.to_string()), fmt_case(rule, data))),
    }
}

pub fn is_num_string_canonical(s: &str, n: &Value) -> bool {
    n.to_string() == s
}

/// What a text interface delivers for this value: serde_json's default float parser is not bit-exact on the
/// shortest decimal text of a double, so print/parse is iterated to a fixpoint (None if there is none within
/// a few rounds or the text exceeds the depth limit).  Checks that drive the CLI evaluate the in-process
/// library on exactly this value.
pub fn via_text(v: &Value) -> Option<Value> {
    let mut cur = v.clone();
    let mut text = cur.to_string();
    for _ in 0..6 {
        let next: Value = serde_json::from_str(&text).ok()?;
        let next_text = next.to_string();
        if next_text == text {
            return Some(next);
        }
        cur = next;
        text = next_text;
    }
    let _ = cur;
    None
}

/// Same JSON document: strings, booleans, null and structure exactly; numbers of the same spelling class
/// (integer / float) with equal values, floats up to the last bits (serde_json's default parser is not bit-exact
/// on its own shortest output).
/// two doubles that serde_json's default (not bit-exact) float parser may produce for the same text: equal up to a
/// few units in the last place - for subnormal numbers one unit is 5e-324 whatever the magnitude
pub fn close(p: f64, q: f64) -> bool {
    p == q || (p - q).abs() <= (4.0 * f64::EPSILON * p.abs().max(q.abs())).max(f64::from_bits(4))
}

pub fn same_document(a: &Value, b: &Value) -> bool {
    match (a, b) {
        (Value::Number(x), Value::Number(y)) => {
            if x == y {
                return true;
            }
            if x.is_f64() != y.is_f64() {
                return false;
            }
            match (x.as_f64(), y.as_f64()) {
                (Some(p), Some(q)) if x.is_f64() => close(p, q),
                _ => false,
            }
        }
        (Value::Array(x), Value::Array(y)) => x.len() == y.len() && x.iter().zip(y.iter()).all(|(p, q)| same_document(p, q)),
        (Value::Object(x), Value::Object(y)) => x.len() == y.len() && x.iter().all(|(k, p)| y.get(k).map(|q| same_document(p, q)).unwrap_or(false)),
        _ => a == b,
    }
}

/// stdout of the command = the library's log lines (verbatim), then - iff a value is expected - exactly one
/// more line that is a JSON serialisation of that value.
pub fn cli_stdout_matches(stdout: &str, log_lines: &[String], value: Option<&Value>) -> Result<(), String> {
    if !stdout.is_empty() && !stdout.ends_with('\n') {
        return Err(format!("stdout does not end with a newline: {:?}", stdout));
    }
    let lines: Vec<&str> = stdout.split_terminator('\n').collect();
    let n = log_lines.len();
    if lines.len() < n || lines[..n].iter().zip(log_lines.iter()).any(|(a, b)| *a != b.as_str()) {
        return Err(format!("stdout {:?} does not start with the log lines {:?}", stdout, log_lines));
    }
    match value {
        None => {
            if lines.len() != n {
                return Err(format!("stdout holds {} line(s) after the log lines although no result line may be printed: {:?}", lines.len() - n, &lines[n..]));
            }
        }
        Some(v) => {
            if lines.len() != n + 1 {
                return Err(format!("stdout must hold exactly one result line after the {} log line(s), found {}: {:?}", n, lines.len() - n, &lines[n..]));
            }
            match serde_json::from_str::<Value>(lines[n]) {
                Ok(p) if same_document(&p, v) => {}
                Ok(p) => return Err(format!("the result line {:?} denotes {} but the library's result is {}", lines[n], p, v)),
                Err(e) => return Err(format!("the result line {:?} is not valid JSON ({}); the library's result is {}", lines[n], e, v)),
            }
        }
    }
    Ok(())
}

// ------------------------------------------------------------------------------------------------ fuzz corpus replay

pub fn hex_decode(h: &str) -> Vec<u8> {
    (0..h.len() / 2).filter_map(|i| u8::from_str_radix(&h[2 * i..2 * i + 2], 16).ok()).collect()
}

pub fn hex_encode(b: &[u8]) -> String {
    b.iter().map(|x| format!("{:02x}", x)).collect()
}

/// every committed seed and saved artifact of a fuzz target, as enumerated cases
pub fn fuzz_corpus_cases(target: &str) -> Vec<Value> {
    let root = crate::corpus::root();
    let mut out = vec![];
    for dir in [root.join("fuzz").join("seeds").join(target), root.join("fuzz").join("artifacts").join(target)] {
        let mut files: Vec<std::path::PathBuf> = match std::fs::read_dir(&dir) {
            Ok(rd) => rd.filter_map(|e| e.ok().map(|e| e.path())).filter(|p| p.is_file()).collect(),
            Err(_) => vec![],
        };
        files.sort();
        for f in files {
            // a `.pack` file holds one hex-encoded input per line (the distilled corpus of a campaign)
            if f.extension().map(|e| e == "pack").unwrap_or(false) {
                if let Ok(text) = std::fs::read_to_string(&f) {
                    for (i, line) in text.lines().enumerate() {
                        let line = line.trim();
                        if !line.is_empty() {
                            out.push(json!({"target": target, "file": format!("{}:{}", f.file_name().map(|n| n.to_string_lossy().to_string()).unwrap_or_default(), i + 1), "hex": line}));
                        }
                    }
                }
                continue;
            }
            if let Ok(bytes) = std::fs::read(&f) {
                out.push(json!({"target": target, "file": f.file_name().map(|n| n.to_string_lossy().to_string()).unwrap_or_default(), "hex": hex_encode(&bytes)}));
            }
        }
    }
    out
}

pub fn check_fuzz_case(case: &Value, obs: &mut Obs) -> Result<(), String> {
    let bytes = hex_decode(case["hex"].as_str().unwrap_or(""));
    let r = match case["target"].as_str().unwrap_or("") {
        "fz_total" => crate::fuzzbody::total(&bytes),
        "fz_diff" => crate::fuzzbody::diff(&bytes),
        other => match crate::fuzzbody::family_of(other) {
            Some(f) => crate::fuzzbody::family(f, &bytes),
            None => return Err(format!("oracle_broken: unknown fuzz target {}", other)),
        },
    };
    obs.evals += 1;
    match r {
        Ok(class) => {
            if class == "value" || class == "error" {
                obs.nt(&format!("corpus input evaluated: {}", class));
            } else {
                obs.class(&format!("corpus input: {}", class));
            }
            Ok(())
        }
        Err(m) => Err(format!("{} (corpus file {})", m, case["file"].as_str().unwrap_or("?"))),
    }
}

// ------------------------------------------------------------------------------------------------ accumulated state

/// Working-set sweep (shared by the operator-family properties): W hot items touched twice, a new item, the hot set
/// again, another new item, everything in reverse - each call against the model.  For every W in 1..=max some cache
/// capacity boundary, eviction or collision path is hit exactly.
pub fn sweep(w: usize, item: &dyn Fn(usize) -> (Value, Value), obs: &mut Obs) -> Result<(), String> {
    let mut order: Vec<usize> = (0..w).collect();
    order.extend(0..w);
    order.push(w);
    order.extend(0..=w);
    order.push(w + 1);
    order.extend((0..=w + 1).rev());
    for (i, k) in order.iter().enumerate() {
        let (rule, data) = item(*k);
        diff(&rule, &data, obs, TraceMode::Multiset).map_err(|e| format!("call {} of a working-set sweep with {} hot items: {}", i, w, e))?;
    }
    Ok(())
}

pub fn sweep_cases(kinds: u64, max_w: usize) -> Vec<Value> {
    // W-major: the kinds alternate, so items of one kind are revisited after the other kinds have pushed many distinct
    // keys through whatever state there is
    let mut out = vec![];
    for w in 1..=max_w {
        for kind in 0..kinds {
            out.push(json!({"w": w, "kind": kind}));
        }
    }
    out
}

// ------------------------------------------------------------------------------------------------ per-element law

/// An expression used as the body of map / filter / all / some / none over several elements must behave, element by
/// element, exactly like the expression applied to that element alone (model-free).  Shared machinery that remembers
/// anything from one element to the next - a memoised operand, a cached key, a "constant" sub-expression - breaks this.
pub fn per_element_law(case: &Value, obs: &mut Obs) -> Result<(), String> {
    let expr = &case["expr"];
    let elements: Vec<Value> = case["elements"].as_array().cloned().unwrap_or_default();
    if elements.is_empty() {
        return Ok(());
    }
    for e in &elements {
        if let (Res::Unspec("over_budget"), _) = model::eval(expr, e) {
            obs.skip("over_budget");
            return Ok(());
        }
    }
    let mut singles: Vec<Option<Value>> = vec![];
    let mut logs = false;
    for e in &elements {
        let (v, lines) = run_traced(expr, e, obs)?;
        logs |= !lines.is_empty();
        singles.push(v);
    }
    let data = json!({"xs": elements});
    let coll = json!({"var": "xs"});
    let mapped = run(&json!({"map": [coll, expr]}), &data, obs)?;
    let first_err = singles.iter().position(|s| s.is_none());
    match first_err {
        Some(_) => {
            if let Some(v) = mapped {
                return Err(format!("the expression fails on one of the elements alone, yet map over them succeeds with {}: expression {} elements {}", v, expr, data["xs"]));
            }
        }
        None => {
            let want = Value::Array(singles.iter().map(|s| s.clone().unwrap()).collect());
            match &mapped {
                Some(got) if model::identical(got, &want) => {}
                other => return Err(format!("map must give, element by element, what the expression gives on each element alone: expected {} got {:?} for expression {} over {}", want, other.as_ref().map(|v| v.to_string()), expr, data["xs"])),
            }
            let verdicts: Vec<bool> = singles.iter().map(|s| coerce::truthy(s.as_ref().unwrap())).collect();
            let kept = Value::Array(elements.iter().zip(verdicts.iter()).filter(|(_, t)| **t).map(|(e, _)| e.clone()).collect());
            match run(&json!({"filter": [coll, expr]}), &data, obs)? {
                Some(got) if model::identical(&got, &kept) => {}
                other => return Err(format!("filter must keep exactly the elements on which the expression alone is truthy: expected {} got {:?} for expression {} over {}", kept, other.map(|v| v.to_string()), expr, data["xs"])),
            }
            if !logs {
                for (op, want) in [("all", verdicts.iter().all(|t| *t)), ("some", verdicts.iter().any(|t| *t)), ("none", !verdicts.iter().any(|t| *t))] {
                    match run(&json!({op: [coll, expr]}), &data, obs)? {
                        Some(Value::Bool(b)) if b == want => {}
                        other => return Err(format!("{} must follow the expression's verdict on each element alone ({:?}): expected {} got {:?} for expression {} over {}", op, verdicts, want, other.map(|v| v.to_string()), expr, data["xs"])),
                    }
                }
            }
        }
    }
    let distinct = singles.iter().map(|s| s.as_ref().map(|v| v.to_string())).collect::<std::collections::BTreeSet<_>>().len();
    if elements.len() >= 2 && distinct >= 2 {
        obs.nt("the expression gives different results on different elements");
    } else {
        obs.class("same result on every element");
    }
    Ok(())
}

pub fn per_element_cases(expr: crate::gen::VS, element: crate::gen::VS) -> proptest::strategy::BoxedStrategy<Value> {
    use proptest::strategy::Strategy;
    (expr, proptest::collection::vec(element, 2..=5)).prop_map(|(e, xs)| json!({"expr": e, "elements": xs})).boxed()
}

// ------------------------------------------------------------------------------------------------ size boundaries

/// Lengths around the powers of two at which a narrowed length type, a fixed buffer or a block size would bite.
pub const SIZE_EDGES: &[usize] = &[255, 256, 257, 4095, 4096, 4097, 65535, 65536, 65537];

/// a string of exactly n characters mixing 1-, 2-, 3- and 4-byte characters by position, ending in "Z"
pub fn sized_string(n: usize) -> String {
    let mut s = String::with_capacity(n * 2);
    for i in 0..n.saturating_sub(1) {
        s.push(match i % 7 {
            0 => 'a',
            1 => 'é',
            2 => 'b',
            3 => '日',
            4 => 'c',
            5 => '😀',
            _ => 'd',
        });
    }
    if n > 0 {
        s.push('Z');
    }
    s
}

/// an array of n small integers 0, 1, 2, ... (mod 97), the last one being 1000
pub fn sized_array(n: usize) -> Value {
    let mut v: Vec<Value> = (0..n.saturating_sub(1)).map(|i| json!(i % 97)).collect();
    if n > 0 {
        v.push(json!(1000));
    }
    Value::Array(v)
}

/// One (rule, data) of a size-boundary family against the reference model; a case the model finds over budget would
/// silently test nothing, so that is reported as a broken oracle.
pub fn size_case(rule: &Value, data: &Value, obs: &mut Obs, what: &str) -> Result<(), String> {
    let d = diff(rule, data, obs, TraceMode::None)?;
    match d.model {
        Res::Unspec(z) => Err(format!("oracle_broken: size-boundary case {} is not decided by the model ({})", what, z)),
        _ => {
            obs.nt(what);
            Ok(())
        }
    }
}
