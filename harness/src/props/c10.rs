//! C10 - arithmetic yields the exact IEEE-754 double or an error.

use super::common::*;
use crate::corpus;
use crate::gen::{self, rules};
use crate::model::{self, Res};
use crate::runner::{Obs, Property, Sub};
use proptest::collection::vec;
use proptest::prelude::*;
use proptest::sample::select;
use serde_json::{json, Value};

const OPS: [&str; 7] = ["+", "-", "*", "/", "%", "min", "max"];

pub fn arith_values() -> gen::VS {
    let arrays = prop_oneof![
        Just(json!([])),
        gen::numbers().prop_map(|n| json!([n])),
        gen::num_strings().prop_map(|s| json!([s])),
        gen::small_ints().prop_map(|n| json!([[n]])),
        (gen::small_ints(), gen::small_ints()).prop_map(|(a, b)| json!([a, b])),
        Just(json!([null])),
        Just(json!([[]])),
        Just(json!([true])),
    ];
    prop_oneof![
        6 => gen::numbers(),
        4 => gen::num_strings().prop_map(gen::j),
        1 => prop_oneof![Just(Value::Null), Just(json!(true)), Just(json!(false))],
        2 => arrays,
        1 => gen::inert_objects(),
        1 => gen::strings(),
    ]
    .boxed()
}

fn classify_result(m: &Res, operands: &[Value], obs: &mut Obs) {
    let coerced = operands.iter().any(|o| !o.is_number());
    match m {
        Res::Ok(v) => {
            let x = v.as_f64().unwrap_or(0.0);
            let a = x.abs();
            if a >= 9223372036854775808.0 && a < 18446744073709551616.0 && x.fract() == 0.0 {
                obs.nt(if x > 0.0 { "result in [2^63, 2^64) (u64 spelling)" } else { "result in (-2^64, -2^63) (float spelling)" });
            } else if a >= 18446744073709551616.0 {
                obs.nt("result beyond 2^64");
            } else if a > 9007199254740992.0 {
                obs.nt("result beyond 2^53");
            } else if x != 0.0 && a < 2.2250738585072014e-308 {
                obs.nt("subnormal result");
            } else if x.fract() != 0.0 {
                obs.nt(if coerced { "fractional result, coerced operand" } else { "fractional result" });
            } else if coerced {
                obs.nt("coerced operand");
            } else {
                obs.class("small integral result from numbers");
            }
        }
        Res::Err => {
            obs.nt(if coerced { "error: non-numeric operand or non-finite result (coerced)" } else { "error: non-finite result" });
        }
        Res::Unspec(_) => obs.class("unspecified"),
    }
}

fn check_tuple(case: &Value, obs: &mut Obs) -> Result<(), String> {
    let op = case["op"].as_str().unwrap_or("+");
    let operands: Vec<Value> = case["args"].as_array().cloned().unwrap_or_default();
    // through var (operands are data, whatever they look like)
    let refs: Vec<Value> = (0..operands.len()).map(|i| json!({"var": i})).collect();
    let data = Value::Array(operands.clone());
    let d = diff(&opn(op, &refs), &data, obs, TraceMode::None)?;
    classify_result(&d.model, &operands, obs);
    // literal operands
    if operands.iter().all(|o| model::eval::as_operation(o).is_none()) {
        diff(&opn(op, &operands), &Value::Null, obs, TraceMode::None)?;
    }
    Ok(())
}

fn gen_tuples() -> BoxedStrategy<Value> {
    (select(OPS.to_vec()), vec(arith_values(), 0..=5), any::<u16>())
        .prop_map(|(op, mut args, r)| {
            // keep most cases inside the documented arity; the rest exercise rejection (C03 covers it in depth)
            let (lo, hi) = match op {
                "-" => (1, 2),
                "/" | "%" => (2, 2),
                "*" | "min" | "max" => (1, 5),
                _ => (0, 5),
            };
            if r % 16 != 0 {
                while args.len() < lo {
                    args.push(json!(3));
                }
                args.truncate(hi);
            }
            json!({"op": op, "args": args})
        })
        .boxed()
}

const BOUNDARY: &[f64] = &[
    0.0, -0.0, 1.0, -1.0, 2.0, 0.5, 3.0, 1e-320, 5e-324, 2.2250738585072014e-308, 9007199254740991.0, 9007199254740992.0, 9007199254740994.0, 4611686018427387904.0, 9223372036854774784.0,
    9223372036854775808.0, 9223372036854777856.0, -9223372036854775808.0, -9223372036854777856.0, 18446744073709549568.0, 18446744073709551616.0, 18446744073709555712.0, 1e19, -1e19, 1.5e300,
    1e308, 1.7976931348623157e308, -1.7976931348623157e308, 4294967296.0, 3037000500.0, 0.1, 0.2,
];

fn fixed_boundaries() -> Vec<Value> {
    let mut nums: Vec<Value> = BOUNDARY.iter().map(|x| gen::f(*x)).collect();
    for i in gen::INT_EXTREMES {
        nums.push(json!(i));
    }
    for u in gen::UINT_EXTREMES {
        nums.push(json!(u));
    }
    let mut out = vec![];
    for op in OPS {
        for a in &nums {
            if matches!(op, "+" | "-" | "*" | "min" | "max") {
                out.push(json!({"op": op, "args": [a]}));
            }
            for b in &nums {
                out.push(json!({"op": op, "args": [a, b]}));
            }
        }
    }
    out
}

/// Number(s) and parseFloat(s) recorded from JavaScript, observed through the operators.
fn check_tonumber(case: &Value, obs: &mut Obs) -> Result<(), String> {
    let s = &case["s"];
    let n = corpus::bits(case["n"].as_str().unwrap_or(""));
    let p = corpus::bits(case["p"].as_str().unwrap_or(""));
    let many_digits = s.as_str().map(|t| crate::model::coerce::string_to_number_ext(t).1 || crate::model::coerce::parse_float_str_ext(t).1).unwrap_or(false);
    if many_digits {
        obs.skip("U11");
        return Ok(());
    }
    let data = json!({"s": s});
    let vs = json!({"var": "s"});
    let expect = |rule: Value, want: f64, obs: &mut Obs| -> Result<(), String> {
        let got = run(&rule, &data, obs)?;
        match (model::Ctx::number_value(want), got) {
            (Res::Ok(w), Some(g)) => {
                if model::values_match(&w, &g) {
                    Ok(())
                } else {
                    Err(format!("{} with s = {} should be {} (JavaScript), got {}", rule, s, w, g))
                }
            }
            (Res::Ok(w), None) => Err(format!("{} with s = {} should be {} (JavaScript), got an error", rule, s, w)),
            (_, Some(g)) => Err(format!("{} with s = {} should be an error (JavaScript value {:e}), got {}", rule, s, want, g)),
            (_, None) => Ok(()),
        }
    };
    expect(op2("-", &vs, &json!(0)), n, obs)?;
    expect(op1("-", &vs), -n, obs)?;
    expect(op2("/", &vs, &json!(1)), n, obs)?;
    expect(op1("max", &vs), n, obs)?;
    expect(op1("min", &vs), n, obs)?;
    expect(op2("%", &vs, &json!(1.7976931348623157e308)), if n.is_finite() && n.abs() < 1.7976931348623157e308 { n } else if n.is_finite() { 0.0 * n } else { f64::NAN }, obs)?;
    expect(op1("+", &vs), p, obs)?;
    expect(op1("*", &vs), p, obs)?;
    expect(opn("+", &[json!(0), vs.clone()]), 0.0 + p, obs)?;
    if n.is_nan() != p.is_nan() || (n.is_finite() && p.is_finite() && n != p) {
        obs.nt("Number(s) differs from parseFloat(s)");
    } else if n.is_nan() {
        obs.nt("non-numeric string");
    } else {
        obs.nt("numeric string");
    }
    Ok(())
}

/// Radix literals on a rounding boundary; the expected double is known by construction (gen::radix_rounding_case).
fn check_radix_rounding(case: &Value, obs: &mut Obs) -> Result<(), String> {
    let s = case["s"].as_str().unwrap_or("");
    let want = corpus::bits(case["bits"].as_str().unwrap_or(""));
    // the oracle's own model must agree with the construction, else the oracle is broken
    let m = crate::model::coerce::string_to_number(s);
    if m != want {
        return Err(format!("oracle_broken: the model converts {} to {:e}, the construction says {:e}", s, m, want));
    }
    obs.nt(case["class"].as_str().unwrap_or("rounding"));
    let data = json!({"s": s});
    let vs = json!({"var": "s"});
    let lit = json!(s);
    for rule in [json!({"-": [vs.clone(), 0]}), json!({"-": [lit.clone(), 0]}), json!({"/": [vs.clone(), 1]}), json!({"max": [vs.clone()]}), json!({"min": [lit.clone()]}), json!({"-": [0, {"-": [vs.clone()]}]})] {
        match run(&rule, &data, obs)? {
            Some(g) => {
                if g.as_f64() != Some(want) {
                    return Err(format!("{} with s = {} should be exactly {:e} (the literal's value rounded to nearest, ties to even), got {}", rule, s, want, g));
                }
            }
            None => return Err(format!("{} with s = {} should be {:e}, got an error", rule, s, want)),
        }
    }
    // comparison routes: equal to its own double, different from the neighbouring doubles
    let me = crate::gen::f(want);
    let below = crate::gen::f(f64::from_bits(want.to_bits() - 1));
    let above = crate::gen::f(f64::from_bits(want.to_bits() + 1));
    let d2 = json!({"s": s, "me": me, "below": below, "above": above});
    for (rule, expect) in [
        (json!({"==": [vs.clone(), {"var": "me"}]}), true),
        (json!({"==": [{"var": "below"}, vs.clone()]}), false),
        (json!({"==": [vs.clone(), {"var": "above"}]}), false),
        (json!({"<=": [{"var": "me"}, vs.clone()]}), true),
        (json!({">=": [{"var": "me"}, vs.clone()]}), true),
        (json!({"<": [{"var": "below"}, vs.clone(), {"var": "above"}]}), true),
    ] {
        let got = run(&rule, &d2, obs)?;
        if got != Some(json!(expect)) {
            return Err(format!("{} with s = {} (value {:e}) should be {}, got {:?}", rule, s, want, expect, got.map(|v| v.to_string())));
        }
    }
    Ok(())
}

fn gen_radix_rounding() -> BoxedStrategy<Value> {
    gen::radix_rounding_case()
        .prop_map(|(s, v)| {
            let class = format!("{} literal, {} significant bits", &s[..2].to_ascii_lowercase(), if s.len() > 40 { ">64 (long)" } else { ">64" });
            json!({"s": s, "bits": format!("{:016x}", v.to_bits()), "class": class})
        })
        .boxed()
}

fn fixed_tonumber() -> Vec<Value> {
    std::fs::read_to_string(corpus::root().join("corpus/js_tonumber.jsonl")).unwrap_or_default().lines().filter_map(|l| serde_json::from_str::<Value>(l).ok()).collect()
}

/// model-free consequences of "the exact IEEE double of the JavaScript conversion"
fn check_laws(case: &Value, obs: &mut Obs) -> Result<(), String> {
    let a = &case["a"];
    let b = &case["b"];
    let c = &case["c"];
    let data = json!({"a": a, "b": b, "c": c});
    let (va, vb, vc) = (json!({"var": "a"}), json!({"var": "b"}), json!({"var": "c"}));
    let num = |v: &Option<Value>| v.as_ref().and_then(|x| x.as_f64());
    let same = |x: &Option<Value>, y: &Option<Value>| -> bool {
        match (x, y) {
            (None, None) => true,
            (Some(p), Some(q)) => model::values_match(p, q),
            _ => false,
        }
    };
    let mut exercised = 0;
    // IEEE addition and multiplication commute
    for op in ["+", "*", "max", "min"] {
        let ab = run(&op2(op, &va, &vb), &data, obs)?;
        let ba = run(&op2(op, &vb, &va), &data, obs)?;
        if !same(&ab, &ba) {
            return Err(format!("{} is not commutative: [a,b] -> {:?} but [b,a] -> {:?} for a = {} b = {}", op, ab.map(|v| v.to_string()), ba.map(|v| v.to_string()), a, b));
        }
        if ab.is_some() {
            exercised += 1;
        }
    }
    // max / min do not depend on the order of three operands
    for op in ["max", "min"] {
        let x = run(&opn(op, &[va.clone(), vb.clone(), vc.clone()]), &data, obs)?;
        let y = run(&opn(op, &[vc.clone(), va.clone(), vb.clone()]), &data, obs)?;
        if !same(&x, &y) {
            return Err(format!("{} depends on operand order: {:?} vs {:?} for {} {} {}", op, x.map(|v| v.to_string()), y.map(|v| v.to_string()), a, b, c));
        }
        // and the result is one of the converted operands
        if let Some(r) = num(&x) {
            let members: Vec<Option<f64>> = [a, b, c].iter().map(|v| num(&run(&op1(op, &json!({"var": "v"})), &json!({"v": v}), obs).ok().flatten())).collect();
            if !members.iter().any(|m| *m == Some(r)) {
                return Err(format!("{} of ({}, {}, {}) = {} is none of its converted operands {:?}", op, a, b, c, r, members));
            }
        }
    }
    // one operand: + and * both give parseFloat(a); - gives the negation of what {-:[a,0]} gives
    let plus1 = run(&op1("+", &va), &data, obs)?;
    let times1 = run(&op1("*", &va), &data, obs)?;
    if !same(&plus1, &times1) {
        return Err(format!("{{+:[a]}} = {:?} but {{*:[a]}} = {:?} for a = {}", plus1.map(|v| v.to_string()), times1.map(|v| v.to_string()), a));
    }
    let neg = run(&op1("-", &va), &data, obs)?;
    let minus0 = run(&op2("-", &va, &json!(0)), &data, obs)?;
    match (num(&neg), num(&minus0)) {
        (Some(x), Some(y)) => {
            if x != -y {
                return Err(format!("one-operand - is not negation: {{-:[a]}} = {} but {{-:[a,0]}} = {} for a = {}", x, y, a));
            }
            exercised += 1;
        }
        (None, None) => {}
        (x, y) => return Err(format!("{{-:[a]}} and {{-:[a,0]}} disagree about failing: {:?} vs {:?} for a = {}", x, y, a)),
    }
    // truncated remainder: sign of the dividend, magnitude below the divisor, and a = trunc(a/b)*b + r for small integers
    let rem = run(&op2("%", &va, &vb), &data, obs)?;
    if let Some(r) = num(&rem) {
        let an = num(&run(&op2("-", &va, &json!(0)), &data, obs)?);
        let bn = num(&run(&op2("-", &vb, &json!(0)), &data, obs)?);
        if let (Some(an), Some(bn)) = (an, bn) {
            if r != 0.0 && (r < 0.0) != (an < 0.0) {
                return Err(format!("% must take the sign of the dividend: {} % {} = {}", an, bn, r));
            }
            if bn.is_finite() && r.abs() >= bn.abs() {
                return Err(format!("|a % b| must be below |b|: {} % {} = {}", an, bn, r));
            }
            if an.abs() < 1e9 && bn.abs() < 1e9 && an.fract() == 0.0 && bn.fract() == 0.0 && bn != 0.0 {
                let q = (an / bn).trunc();
                if q * bn + r != an {
                    return Err(format!("a = trunc(a/b)*b + a%b fails: {} % {} = {}", an, bn, r));
                }
            }
            exercised += 1;
        }
    }
    // a - b is the sum of a and the negation of b when both conversions agree (numbers only)
    if a.is_number() && b.is_number() {
        let diff_ = run(&op2("-", &va, &vb), &data, obs)?;
        let via = run(&op2("+", &va, &op1("-", &vb)), &data, obs)?;
        if !same(&diff_, &via) {
            return Err(format!("a - b = {:?} but a + (-b) = {:?} for a = {} b = {}", diff_.map(|v| v.to_string()), via.map(|v| v.to_string()), a, b));
        }
    }
    if exercised >= 3 {
        obs.nt("laws on numeric operands");
    } else {
        obs.class("laws mostly on failing conversions");
    }
    Ok(())
}

fn gen_laws() -> BoxedStrategy<Value> {
    let v = || prop_oneof![5 => gen::numbers(), 3 => gen::num_strings().prop_map(gen::j), 1 => arith_values()];
    (v(), v(), v()).prop_map(|(a, b, c)| json!({"a": a, "b": b, "c": c})).boxed()
}

fn check_rules(case: &Value, obs: &mut Obs) -> Result<(), String> {
    let d = diff(rule_of(case), data_of(case), obs, TraceMode::Multiset)?;
    if d.model.is_ok() || d.model.is_err() {
        obs.nt(if d.model.is_ok() { "nested arithmetic, value" } else { "nested arithmetic, error" });
    }
    Ok(())
}

fn gen_rules() -> BoxedStrategy<Value> {
    let cfg = rules::Cfg::new(&["+", "-", "*", "/", "%", "min", "max", "if", "var", "cat"]).leaf(arith_values()).poison(0).bad_arity(10);
    gen::case2(rules::rooted(cfg), gen::data_docs())
}


// ------------------------------------------------------------------------------------------------ stepwise rounding
// Every operator application rounds its own result to a double (and fails when that result is not finite) before the
// next operator sees it.  Algebraic shortcuts over *compositions* - a fused multiply-add for a * b + c, re-association of
// sums, distributing a factor, dividing by multiplying with a reciprocal, folding constants at higher precision - keep every
// single operator right and change the composed result only when an intermediate value is inexact and the operands are of
// comparable magnitude: the leaves here are built for that.

fn comparable_leaf() -> BoxedStrategy<f64> {
    prop_oneof![
        // decimal fractions: k / 10^d
        6 => (1u32..=999, 1u32..=3, any::<bool>()).prop_map(|(k, d, neg)| { let x = k as f64 / 10f64.powi(d as i32); if neg { -x } else { x } }),
        // full 53-bit significands with exponents close together
        6 => (any::<u64>(), -3i32..=3, any::<bool>()).prop_map(|(m, e, neg)| { let x = (1.0 + (m >> 12) as f64 / 4503599627370496.0) * 2f64.powi(e); if neg { -x } else { x } }),
        3 => (-10i64..=10).prop_map(|i| i as f64),
        2 => select(vec![1.0 / 3.0, 2.0 / 3.0, 0.1 + 0.2, 1.1, 1e-1, 1e16, 9007199254740993.0, 3.0e-1, 1.0e-17, 0.5, 0.25, 10.0, 100.0, 1e15 + 0.3]),
        // intermediate overflow: finite when fused or re-associated, an error step by step
        1 => select(vec![1e308, -1e308, 1.5e308, f64::MAX, 8.98846567431158e307, 2.0, 1e154, 1.5e154, -1e154]),
        // intermediate underflow
        1 => select(vec![1e-308, 5e-324, 1e-160, 1.5e-160, 2.2250738585072014e-308, 1e300]),
    ]
    .boxed()
}

fn stepwise_node(inner: gen::VS) -> gen::VS {
    prop_oneof![
        4 => (inner.clone(), inner.clone()).prop_map(|(a, b)| op2("+", &a, &b)),
        4 => (inner.clone(), inner.clone()).prop_map(|(a, b)| op2("*", &a, &b)),
        3 => (inner.clone(), inner.clone()).prop_map(|(a, b)| op2("-", &a, &b)),
        3 => (inner.clone(), inner.clone()).prop_map(|(a, b)| op2("/", &a, &b)),
        1 => (inner.clone(), inner.clone()).prop_map(|(a, b)| op2("%", &a, &b)),
        1 => (inner.clone(), inner.clone(), inner.clone()).prop_map(|(a, b, c)| opn("+", &[a, b, c])),
        1 => (inner.clone(), inner.clone(), inner.clone()).prop_map(|(a, b, c)| opn("*", &[a, b, c])),
        1 => inner.clone().prop_map(|a| opn("-", &[a])),
        1 => (inner.clone(), inner).prop_map(|(a, b)| op2("max", &a, &b)),
    ]
    .boxed()
}

/// the shapes an algebraic shortcut would look for, over three leaves
fn stepwise_shapes() -> gen::VS {
    let l = || comparable_leaf().prop_map(gen::f);
    (l(), l(), l(), 0u8..14)
        .prop_map(|(a, b, c, shape)| match shape {
            0 => op2("+", &op2("*", &a, &b), &c),
            1 => op2("+", &c, &op2("*", &a, &b)),
            2 => op2("-", &op2("*", &a, &b), &c),
            3 => op2("-", &c, &op2("*", &a, &b)),
            4 => op2("+", &op2("+", &a, &b), &c),
            5 => op2("+", &a, &op2("+", &b, &c)),
            6 => op2("*", &a, &op2("+", &b, &c)),
            7 => op2("+", &op2("*", &a, &b), &op2("*", &a, &c)),
            8 => op2("*", &op2("/", &a, &b), &c),
            9 => op2("*", &a, &op2("/", &json!(1), &b)),
            10 => op2("/", &op2("*", &a, &b), &c),
            11 => op2("+", &op2("-", &a, &b), &b),
            12 => op2("*", &op2("*", &a, &b), &c),
            _ => op2("/", &op2("/", &a, &b), &c),
        })
        .boxed()
}

fn stepwise_tree() -> gen::VS {
    let leaf = comparable_leaf().prop_map(gen::f).boxed();
    let rec = leaf.prop_recursive(3, 12, 3, stepwise_node).boxed();
    // at least two operators: the root and one of its operands
    let inner_op = stepwise_node(rec.clone());
    prop_oneof![
        3 => stepwise_shapes(),
        2 => stepwise_node(inner_op.clone()),
        2 => (select(vec!["+", "-", "*", "/"]), inner_op.clone(), rec.clone()).prop_map(|(op, a, b)| op2(op, &a, &b)),
        2 => (select(vec!["+", "-", "*", "/"]), rec, inner_op).prop_map(|(op, a, b)| op2(op, &a, &b)),
    ]
    .boxed()
}

/// move some leaves into the data (read back through var) and spell some as numeric strings
fn externalise(v: &Value, next: &mut usize, vars: u64, texts: u64, data: &mut serde_json::Map<String, Value>) -> Value {
    match v {
        Value::Number(n) => {
            let i = *next;
            *next += 1;
            let bit = 1u64 << (i % 64);
            let mut leaf = v.clone();
            if texts & bit != 0 && i % 5 == 0 {
                // serde_json prints the shortest digits that read back as the same double
                leaf = Value::String(n.to_string());
            }
            if vars & bit != 0 {
                let key = format!("v{}", i);
                data.insert(key.clone(), leaf);
                json!({ "var": key })
            } else {
                leaf
            }
        }
        Value::Array(items) => Value::Array(items.iter().map(|x| externalise(x, next, vars, texts, data)).collect()),
        Value::Object(m) => Value::Object(m.iter().map(|(k, x)| (k.clone(), externalise(x, next, vars, texts, data))).collect()),
        other => other.clone(),
    }
}

fn gen_stepwise() -> BoxedStrategy<Value> {
    (stepwise_tree(), any::<u64>(), any::<u64>())
        .prop_map(|(tree, vars, texts)| {
            let mut data = serde_json::Map::new();
            let mut next = 0usize;
            let rule = externalise(&tree, &mut next, vars, texts, &mut data);
            json!({"rule": rule, "data": Value::Object(data)})
        })
        .boxed()
}

fn arith_nodes(v: &Value) -> usize {
    match model::eval::as_operation(v) {
        Some((name, operand)) if name != "var" => 1 + operand.as_array().map(|a| a.iter().map(arith_nodes).sum()).unwrap_or(0),
        _ => 0,
    }
}

/// leaf value of a number, a numeric string or a var reference to one
fn leaf_value(v: &Value, data: &Value) -> Option<f64> {
    match v {
        Value::Number(n) => n.as_f64(),
        Value::String(s) => s.parse::<f64>().ok(),
        Value::Object(_) => match model::eval::as_operation(v) {
            Some(("var", k)) => k.as_str().and_then(|k| data.get(k)).and_then(|x| leaf_value(x, &Value::Null)),
            _ => None,
        },
        _ => None,
    }
}

/// does the rule contain a * b + c (either order) over leaves where a fused multiply-add would give another double, or
/// (a + b) + c / a + (b + c) over leaves where the other association would?
fn shortcut_sensitive(v: &Value, data: &Value) -> bool {
    let Some((name, operand)) = model::eval::as_operation(v) else { return false };
    let Some(args) = operand.as_array() else { return false };
    if args.iter().any(|a| shortcut_sensitive(a, data)) {
        return true;
    }
    if (name == "+" || name == "-") && args.len() == 2 {
        for (inner, other) in [(&args[0], &args[1]), (&args[1], &args[0])] {
            if let (Some((iname, ioperand)), Some(c)) = (model::eval::as_operation(inner), leaf_value(other, data)) {
                if let Some([x, y]) = ioperand.as_array().map(|a| a.as_slice()) {
                    if let (Some(a), Some(b)) = (leaf_value(x, data), leaf_value(y, data)) {
                        let c = if name == "-" { -c } else { c };
                        if iname == "*" && (a * b).is_finite() && a.mul_add(b, c) != a * b + c {
                            return true;
                        }
                        if iname == "+" && name == "+" && (a + b) + c != a + (b + c) {
                            return true;
                        }
                    }
                }
            }
        }
    }
    false
}

fn check_stepwise(case: &Value, obs: &mut Obs) -> Result<(), String> {
    let (rule, data) = (rule_of(case), data_of(case));
    let d = diff(rule, data, obs, TraceMode::None)?;
    let nodes = arith_nodes(rule);
    match &d.model {
        Res::Unspec(_) => obs.class("unspecified"),
        _ if nodes < 2 => obs.class("a single operator"),
        Res::Err => obs.nt("composition: an intermediate or final result is not finite (error)"),
        Res::Ok(_) => {
            if shortcut_sensitive(rule, data) {
                obs.nt("composition: a fused multiply-add or the other association would give another double");
            } else if d.model.is_ok() && rule.to_string().contains('.') || data.to_string().contains('.') {
                obs.nt("composition: fractional leaves");
            } else {
                obs.class("composition over integers");
            }
        }
    }
    Ok(())
}

/// accumulated state: see common::sweep
fn sweep_item(kind: u64, k: usize) -> (Value, Value) {
    match kind % 4 {
        0 => (json!({"-": [format!("{}", 1000 + k), 0]}), Value::Null),
        1 => (json!({"+": [format!("{}px", 1000 + k)]}), Value::Null),
        2 => (json!({"*": [format!(" {}.5 ", k), 2]}), Value::Null),
        _ => (json!({"max": [format!("{}", k), {"var": "n"}, format!("0x{:x}", k)]}), json!({"n": k as f64 + 0.5})),
    }
}

fn check_state_sweep(case: &Value, obs: &mut Obs) -> Result<(), String> {
    let w = case["w"].as_u64().unwrap_or(1) as usize;
    let kind = case["kind"].as_u64().unwrap_or(0);
    sweep(w, &|k| sweep_item(kind, k), obs)?;
    obs.nt(&format!("sweep kind {} W {}", kind, if w < 64 { "<64" } else if w < 128 { "64-127" } else { "128+" }));
    Ok(())
}

fn fixed_state_sweeps() -> Vec<Value> {
    sweep_cases(4, 300)
}


fn gen_per_element() -> BoxedStrategy<Value> {
    let cfg = rules::Cfg::new(&["+", "-", "*", "/", "%", "min", "max", "if", "var"]).leaf(arith_values()).poison(0).bad_arity(0);
    per_element_cases(rules::rooted(cfg), prop_oneof![2 => gen::data_docs(), 1 => arith_values()].boxed())
}


// numeric strings of exactly 255 ... 65537 characters (common::SIZE_EDGES) whose value is small: leading zeros,
// surrounding white space, zeros in the exponent, a long run of fraction zeros, radix literals with leading zeros
const KINDS: u64 = 8;
fn check_sizes(case: &Value, obs: &mut Obs) -> Result<(), String> {
    let n = case["n"].as_u64().unwrap_or(1) as usize;
    let k = case["k"].as_u64().unwrap_or(0);
    let s = match k {
        0 => format!("{}7", "0".repeat(n - 1)),
        1 => format!("{}7", " ".repeat(n - 1)),
        2 => format!("7{}", "\u{00a0}".repeat(n - 1)),
        3 => format!("1e{}5", "0".repeat(n - 3)),
        4 => format!("0.{}1", "0".repeat(n - 3)),
        5 => format!("0x{}f", "0".repeat(n - 3)),
        6 => format!("-{}.5", "0".repeat(n - 3)),
        _ => format!("7{}", "0".repeat(n - 1)),
    };
    let data = json!({"s": s});
    let vs = json!({"var": "s"});
    let label = format!("size kind {} n {}", k, if n < 1000 { "~2^8" } else if n < 10000 { "~2^12" } else { "~2^16" });
    for rule in [json!({"-": [vs.clone(), 0]}), json!({"+": [vs.clone()]}), json!({"*": [s.clone(), 2]}), json!({"==": [vs.clone(), 7]}), json!({"<": [vs.clone(), 8]}), json!({"max": [1, vs.clone()]})] {
        size_case(&rule, &data, obs, &label)?;
    }
    Ok(())
}

fn fixed_sizes() -> Vec<Value> {
    let mut out = vec![];
    for n in SIZE_EDGES {
        for k in 0..KINDS {
            out.push(json!({"n": n, "k": k}));
        }
    }
    out
}

pub fn property() -> Property {
    Property {
        id: "C10",
        subs: vec![
            Sub {
                name: "size_boundaries",
                about: "numeric strings of exactly 255 / 256 / 257, 4095 / 4096 / 4097 and 65535 / 65536 / 65537 characters whose value is small or overflows - leading zeros, leading blanks, trailing no-break spaces, zeros in the exponent, a long run of fraction zeros, a radix literal with leading zeros, a negative fraction, 7 followed by n zeros (not finite: an error) - through - + * max and the == and < routes, against the reference model.",
                nontrivial: "every case.",
                strategy: None,
                fixed: Some(fixed_sizes),
                fixed_exhaustive: true,
                check: check_sizes,
                quick: 0,
                thorough: 0,
                small_stack: false,
            },
            Sub {
                name: "fuzz_corpus_replay",
                about: "every committed corpus input and saved artifact of the libFuzzer target fz_arith - one application of + - * / % min max whose operands are written by the fuzzer as text lines (a line that parses as JSON is that value, any other line is a raw string such as ` 0x1F ` or `12px`; operands literal or through var) - replayed through the target's own body against the reference model; the committed corpus is the coverage-distinct set distilled from campaigns on the unchanged tree, so each input reaches a different piece of the implementation. The thorough tier additionally runs the coverage-guided campaign.",
                nontrivial: "the decoded rule is evaluated and the model determines the outcome.",
                strategy: None,
                fixed: Some(|| fuzz_corpus_cases("fz_arith")),
                fixed_exhaustive: false,
                check: check_fuzz_case,
                quick: 0,
                thorough: 0,
                small_stack: false,
            },
            Sub {
                name: "per_element",
                about: "this property's operators inside an expression used as the body of map / filter / all / some / none over 2-5 different elements: element by element the outcome must be what the expression gives on that element alone (model-free per-element law); catches anything the shared evaluation machinery remembers from one element to the next.",
                nontrivial: "the expression gives different results on different elements.",
                strategy: Some(gen_per_element),
                fixed: None,
                fixed_exhaustive: false,
                check: per_element_law,
                quick: 40_000,
                thorough: 2_000_000,
                small_stack: false,
            },
            Sub {
                name: "state_sweep",
                about: "accumulated state: for every W in 1..300 and each kind of keyed work of this operator family (Number-style and parseFloat-style conversion of distinct strings, fractional strings, mixed max), W hot items are evaluated twice, then a new item, the hot set again, another new item, and everything in reverse; every call against the reference model - a cache, pool or table with any capacity up to 300 is driven exactly over its boundary.",
                nontrivial: "every case.",
                strategy: None,
                fixed: Some(fixed_state_sweeps),
                fixed_exhaustive: false,
                check: check_state_sweep,
                quick: 0,
                thorough: 0,
                small_stack: false,
            },
            Sub {
                name: "boundaries",
                about: "all one- and two-operand applications of + - * / % min max over 54 boundary numbers (0, -0, subnormals, 2^53, 2^62, 2^63, 2^64 and neighbours, 1e19, 1.5e300, f64::MAX, i64/u64 extremes) against the model: value, integer/float spelling class, error exactly when not finite.",
                nontrivial: "result beyond 2^53 / in [2^63,2^64) / beyond 2^64 / subnormal / fractional / error.",
                strategy: None,
                fixed: Some(fixed_boundaries),
                fixed_exhaustive: true,
                check: check_tuple,
                quick: 0,
                thorough: 0,
                small_stack: false,
            },
            Sub {
                name: "radix_rounding",
                about: "hexadecimal, octal and binary literals built to sit on a rounding boundary of the double format - a 53-bit significand, a round bit and 11-80 tail bits (all zero, all one, a single one first / last / at position 10, mixed), so more than 64 significant bits - whose correctly rounded value (nearest, ties to even) is known by construction, independent of model and implementation: through {-:[s,0]}, /, max, min, double negation, literal and via var, and ==, <=, >=, between against the value and its neighbouring doubles.",
                nontrivial: "every case.",
                strategy: Some(gen_radix_rounding),
                fixed: None,
                fixed_exhaustive: false,
                check: check_radix_rounding,
                quick: 20_000,
                thorough: 1_000_000,
                small_stack: false,
            },
            Sub {
                name: "js_tonumber",
                about: "62k strings with Number(s) and parseFloat(s) recorded from JavaScript, observed through {-:[s,0]}, {-:[s]}, {/:[s,1]}, max, min, % and {+:[s]}, {*:[s]}, {+:[0,s]}.",
                nontrivial: "every string (numeric, non-numeric, or Number and parseFloat disagree).",
                strategy: None,
                fixed: Some(fixed_tonumber),
                fixed_exhaustive: true,
                check: check_tonumber,
                quick: 0,
                thorough: 0,
                small_stack: false,
            },
            Sub {
                name: "tuples_model",
                about: "generated (operator, 0..5 operands) over numbers incl. extremes, the numeric-string grammar, booleans, null, arrays and objects; operands as data (var) and as literals; against the reference fold.",
                nontrivial: "as boundaries, plus any coerced (non-number) operand.",
                strategy: Some(gen_tuples),
                fixed: None,
                fixed_exhaustive: false,
                check: check_tuple,
                quick: 300_000,
                thorough: 15_000_000,
                small_stack: false,
            },
            Sub {
                name: "laws",
                about: "model-free consequences of exact IEEE arithmetic on generated operand triples: + * max min commute, max / min ignore operand order and return one of their converted operands, {+:[a]} = {*:[a]}, one-operand - is the negation of {-:[a,0]} (and fails exactly when it fails), % has the sign of the dividend, magnitude below the divisor and satisfies a = trunc(a/b)*b + a%b on small integers, a - b = a + (-b) on numbers.",
                nontrivial: "at least three laws were exercised on successful conversions.",
                strategy: Some(gen_laws),
                fixed: None,
                fixed_exhaustive: false,
                check: check_laws,
                quick: 40_000,
                thorough: 2_000_000,
                small_stack: false,
            },
            Sub {
                name: "stepwise_rounding",
                about: "compositions of + - * / % max, two to twelve operators deep to three levels, over leaves of comparable magnitude whose products, quotients and sums are inexact (decimal fractions k/10^d, full 53-bit significands with exponents within 2^-3..2^3, 1/3, 0.1+0.2, values whose product overflows or underflows although the whole expression would not) - literal, through var, or as numeric strings - against the reference model, which rounds after every operator: each application yields its own correctly rounded double, or an error when that double is not finite, before the next operator sees it. Reports algebraic shortcuts across operators (fused multiply-add, re-association, distribution, reciprocal multiplication, constant folding at another precision) that leave every single operator right.",
                nontrivial: "at least two operators and the model determines the outcome, and: an intermediate result is not finite (error), or the rule contains a*b+c / (a+b)+c over leaves for which the fused or re-associated evaluation gives a different double (counted separately), or some leaf is fractional.",
                strategy: Some(gen_stepwise),
                fixed: None,
                fixed_exhaustive: false,
                check: check_stepwise,
                quick: 150_000,
                thorough: 8_000_000,
                small_stack: false,
            },
            Sub {
                name: "rules_model",
                about: "generated nested arithmetic rules (results feeding further operators, var, if, cat) against the model.",
                nontrivial: "the model determines a value or an error.",
                strategy: Some(gen_rules),
                fixed: None,
                fixed_exhaustive: false,
                check: check_rules,
                quick: 80_000,
                thorough: 4_000_000,
                small_stack: false,
            },
        ],
        assumptions: vec!["f64 + - * / % in rustc are IEEE-754 (and % is C fmod)", "U10: the spelling of a zero result is not compared", "U11: decimal strings with more than 20 significant digits skipped", "the recorded JavaScript corpus is ground truth"],
    }
}
