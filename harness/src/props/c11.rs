//! C11 - var resolves paths through objects, arrays and strings; absent means default.

use super::common::*;
use crate::gen::{self, rules};
use crate::model::{self, Res};
use crate::runner::{Obs, Property, Sub};
use proptest::collection::vec;
use proptest::prelude::*;
use proptest::sample::select;
use serde_json::{json, Map, Value};

const SENTINEL: &str = "§absent§";

fn tree_keys() -> BoxedStrategy<String> {
    select(vec!["a", "b", "c", "0", "1", "-1", "a.b", "x\\y", "é", "日本", "k k", "", "x.y.z", "\\", ".", "10", "01", "+1", "null", "var"]).prop_map(|s| s.to_string()).boxed()
}

/// Trees made for walking: objects with awkward keys, arrays, strings with multi-byte characters, scalars, nulls.
fn trees() -> gen::VS {
    let leaf: gen::VS = prop_oneof![
        2 => Just(Value::Null),
        2 => gen::small_ints(),
        2 => gen::texts(5).prop_map(gen::j),
        1 => select(vec!["héllo", "日本語", "a😀b", "𝄞", "ab"]).prop_map(|s| json!(s)),
        1 => Just(json!(false)),
        1 => Just(json!(0)),
        1 => Just(json!("")),
        1 => gen::op_shaped(),
    ]
    .boxed();
    leaf.prop_recursive(4, 32, 4, |inner| {
        prop_oneof![
            3 => vec((tree_keys(), inner.clone()), 1..=4).prop_map(|kv| {
                let mut m = Map::new();
                for (k, v) in kv {
                    m.insert(k, v);
                }
                Value::Object(m)
            }),
            2 => vec(inner, 1..=4).prop_map(Value::Array),
        ]
        .boxed()
    })
    .boxed()
}

fn escape(comp: &str) -> String {
    let mut out = String::new();
    for c in comp.chars() {
        if c == '.' || c == '\\' {
            out.push('\\');
        }
        out.push(c);
    }
    out
}

#[derive(Debug, Clone)]
struct Walk {
    comps: Vec<String>,
    /// value found by construction (None = absent by construction)
    found: Option<Value>,
    negative: bool,
    string_index: bool,
    multibyte: bool,
    escaped: bool,
}

/// Walk into `data` following `choices`; `perturb` (0 = none) damages the last step so that the path is absent.
fn build_walk(data: &Value, choices: &[u16], neg: &[bool], perturb: u8) -> Walk {
    let mut cur = data.clone();
    let mut w = Walk { comps: vec![], found: None, negative: false, string_index: false, multibyte: false, escaped: false };
    for (i, ch) in choices.iter().enumerate() {
        let use_neg = neg.get(i).cloned().unwrap_or(false);
        match &cur {
            Value::Object(m) if !m.is_empty() => {
                let keys: Vec<&String> = m.keys().collect();
                let k = keys[gen::pick(*ch, keys.len())].clone();
                if k.is_empty() {
                    // an empty component cannot be written as the last one (zone U2); stop before it
                    break;
                }
                if k.contains('.') || k.contains('\\') {
                    w.escaped = true;
                }
                w.comps.push(k.clone());
                cur = m[&k].clone();
            }
            Value::Array(a) if !a.is_empty() => {
                let idx = gen::pick(*ch, a.len());
                if use_neg {
                    w.comps.push(format!("-{}", a.len() - idx));
                    w.negative = true;
                } else {
                    w.comps.push(idx.to_string());
                }
                cur = a[idx].clone();
            }
            Value::String(s) if !s.is_empty() => {
                let chars: Vec<char> = s.chars().collect();
                let idx = gen::pick(*ch, chars.len());
                if use_neg {
                    w.comps.push(format!("-{}", chars.len() - idx));
                    w.negative = true;
                } else {
                    w.comps.push(idx.to_string());
                }
                w.string_index = true;
                if !s.is_ascii() {
                    w.multibyte = true;
                }
                cur = Value::String(chars[idx].to_string());
            }
            _ => break,
        }
    }
    w.found = Some(cur.clone());
    if perturb > 0 && !w.comps.is_empty() {
        // re-walk to the parent of the last step
        let mut parent = data.clone();
        for c in &w.comps[..w.comps.len() - 1] {
            parent = match &parent {
                Value::Object(m) => m[c].clone(),
                Value::Array(a) => {
                    let i: i64 = c.parse().unwrap();
                    a[if i < 0 { (a.len() as i64 + i) as usize } else { i as usize }].clone()
                }
                Value::String(s) => {
                    let chars: Vec<char> = s.chars().collect();
                    let i: i64 = c.parse().unwrap();
                    Value::String(chars[if i < 0 { (chars.len() as i64 + i) as usize } else { i as usize }].to_string())
                }
                other => other.clone(),
            };
        }
        let last = w.comps.len() - 1;
        let len = match &parent {
            Value::Array(a) => Some(a.len()),
            Value::String(s) => Some(s.chars().count()),
            _ => None,
        };
        match (perturb, len, &parent) {
            (1, Some(n), _) => {
                w.comps[last] = n.to_string(); // one past the end
                w.found = None;
            }
            (2, Some(n), _) => {
                w.comps[last] = format!("-{}", n + 1); // one before the start
                w.negative = true;
                w.found = None;
            }
            (3, Some(_), _) => {
                // not an integer: plain words and the property names other languages answer on arrays and strings
                // (JavaScript's `length`, `constructor`, `__proto__`; Python / Ruby style `len`, `size`, `first`, `last`)
                const WORDS: &[&str] = &["x", "length", "__proto__", "constructor", "toString", "size", "len", "count", "first", "last", "keys", "NaN", "Infinity", "null", "true", "-", "1:3", "3:1", "-1:1", ":1", "2:", "0:-1", "::", "1..2", "*", "**", "#", "?", "@", "$", "[*]", "[]", "0,1", "0|1"];
                w.comps[last] = WORDS[choices.iter().map(|c| *c as usize).sum::<usize>() % WORDS.len()].to_string();
                w.found = None;
            }
            (_, None, Value::Object(m)) => {
                // an absent key: usually a decorated neighbour of a present one, sometimes a name that objects answer to
                // in other languages although it is not a key of this one
                const NAMES: &[&str] = &["length", "__proto__", "constructor", "hasOwnProperty", "toString", "valueOf", "keys", "size"];
                let pick = choices.iter().map(|c| *c as usize).sum::<usize>();
                let mut k = if perturb >= 3 && !m.contains_key(NAMES[pick % NAMES.len()]) { NAMES[pick % NAMES.len()].to_string() } else { format!("{}~missing", w.comps[last]) };
                while m.contains_key(&k) {
                    k.push('~');
                }
                w.comps[last] = k;
                w.found = None;
            }
            (4, Some(_), _) if last >= 1 && !w.comps[last - 1].is_empty() && !w.comps[last].starts_with('-') => {
                // other path syntaxes for the same place are just absent keys here: `xs[0]`, `xs/0`, `xs->0`, `xs:0`
                let idx = w.comps.pop().unwrap_or_default();
                let key = w.comps.pop().unwrap_or_default();
                let pick = choices.iter().map(|c| *c as usize).sum::<usize>() % 4;
                let merged = match pick {
                    0 => format!("{}[{}]", key, idx),
                    1 => format!("{}/{}", key, idx),
                    2 => format!("{}->{}", key, idx),
                    _ => format!("{}:{}", key, idx),
                };
                // the merged text must not happen to be a key of the grandparent
                let mut gp = data.clone();
                for c in &w.comps {
                    gp = match &gp {
                        Value::Object(m) => m.get(c).cloned().unwrap_or(Value::Null),
                        Value::Array(a) => c.parse::<i64>().ok().and_then(|i| a.get(if i < 0 { (a.len() as i64 + i) as usize } else { i as usize }).cloned()).unwrap_or(Value::Null),
                        _ => Value::Null,
                    };
                }
                if gp.get(&merged).is_none() && gp.is_object() {
                    w.comps.push(merged);
                    w.found = None;
                } else {
                    w.comps.push(key);
                    w.comps.push(idx);
                }
            }
            _ => {
                // step into a scalar below the found value
                if !matches!(cur, Value::Object(_) | Value::Array(_) | Value::String(_)) || cur.as_str().map(|s| s.is_empty()).unwrap_or(false) {
                    w.comps.push("deeper".to_string());
                    w.found = None;
                }
            }
        }
    }
    w
}

fn path_text(w: &Walk) -> String {
    w.comps.iter().map(|c| escape(c)).collect::<Vec<_>>().join(".")
}

/// replace everything that is not on the walk by markers; lengths of arrays are preserved
fn mutate_off_path(data: &Value, comps: &[String]) -> Value {
    if comps.is_empty() {
        return data.clone();
    }
    let c = &comps[0];
    match data {
        Value::Object(m) => {
            let mut out = Map::new();
            for (k, v) in m {
                if k == c {
                    out.insert(k.clone(), mutate_off_path(v, &comps[1..]));
                } else {
                    out.insert(k.clone(), json!({"frame": "changed"}));
                }
            }
            let mut extra = "zz-frame".to_string();
            while out.contains_key(&extra) || &extra == c {
                extra.push('z');
            }
            out.insert(extra, json!([1, 2, 3]));
            Value::Object(out)
        }
        Value::Array(a) => {
            let idx: Option<usize> = c.parse::<i64>().ok().and_then(|i| if i < 0 { (a.len() as i64 + i).try_into().ok() } else { Some(i as usize) });
            Value::Array(a.iter().enumerate().map(|(i, v)| if Some(i) == idx { mutate_off_path(v, &comps[1..]) } else { json!("frame-changed") }).collect())
        }
        other => other.clone(),
    }
}

fn check_walk(case: &Value, obs: &mut Obs) -> Result<(), String> {
    let data = &case["data"];
    let choices: Vec<u16> = case["choices"].as_array().map(|a| a.iter().map(|x| x.as_u64().unwrap_or(0) as u16).collect()).unwrap_or_default();
    let neg: Vec<bool> = case["neg"].as_array().map(|a| a.iter().map(|x| x.as_bool().unwrap_or(false)).collect()).unwrap_or_default();
    let perturb = case["perturb"].as_u64().unwrap_or(0) as u8;
    let form = case["form"].as_u64().unwrap_or(0);
    let w = build_walk(data, &choices, &neg, perturb);
    let path = path_text(&w);
    let default = &case["default"];
    // key operand forms
    let single_int: Option<i64> = if w.comps.len() == 1 { w.comps[0].parse::<i64>().ok().filter(|i| i.to_string() == w.comps[0]) } else { None };
    let key: Value = match (form % 4, single_int) {
        (1, Some(i)) => json!(i),
        (2, _) if w.comps.len() >= 2 => {
            // computed key
            let head = w.comps[..w.comps.len() - 1].iter().map(|c| escape(c)).collect::<Vec<_>>().join(".");
            json!({"cat": [head, ".", escape(&w.comps[w.comps.len() - 1])]})
        }
        (3, _) => json!({"var": "§key§"}),
        _ => json!(path),
    };
    let mut data_used = data.clone();
    if form % 4 == 3 {
        // the key itself is read from the data (only possible when the data is an object without that key)
        match &mut data_used {
            Value::Object(m) if !m.contains_key("§key§") && w.comps.first().map(|c| c != "§key§").unwrap_or(true) => {
                m.insert("§key§".to_string(), json!(path));
            }
            _ => return check_walk(&{ let mut c = case.clone(); c["form"] = json!(0); c }, obs),
        }
    }
    let with_default = form >= 4;
    let rule = if with_default { json!({"var": [key, default]}) } else if form % 2 == 0 { json!({"var": key}) } else { json!({"var": [key]}) };
    if path.is_empty() {
        obs.class("empty walk (whole data)");
    }
    let d = diff(&rule, &data_used, obs, TraceMode::Multiset)?;
    // expectation by construction, independent of the model's resolver
    let expected: Value = if path.is_empty() {
        data_used.clone()
    } else {
        match &w.found {
            Some(v) => v.clone(),
            None => {
                if with_default {
                    // the default is an expression: only literal defaults are predicted here
                    if model::eval::as_operation(default).is_some() {
                        Value::String(SENTINEL.into())
                    } else {
                        default.clone()
                    }
                } else {
                    Value::Null
                }
            }
        }
    };
    if expected != Value::String(SENTINEL.into()) && !matches!(d.model, Res::Unspec(_)) {
        match &d.out {
            crate::imp::Out::Ok(got) if model::identical(got, &expected) => {}
            other => return Err(format!("{} on {} should be {} (found by construction), got {}", rule, data_used, expected, other.short())),
        }
    }
    // frame property: what is not on the path never matters
    if !path.is_empty() && form % 4 != 3 && w.found.is_some() {
        let framed = mutate_off_path(data, &w.comps);
        let t = crate::imp::apply_traced(&rule, &framed);
        obs.evals += 1;
        sanity(&t, &rule, &framed)?;
        match (&d.out, &t.out) {
            (crate::imp::Out::Ok(a), crate::imp::Out::Ok(b)) if model::identical(a, b) => {}
            (crate::imp::Out::Err(_), crate::imp::Out::Err(_)) => {}
            (a, b) => return Err(format!("data off the path influenced the result: {} gives {} on {} but {} on {}", rule, a.short(), data, b.short(), framed)),
        }
    }
    // classes
    if matches!(d.model, Res::Unspec(_)) {
        obs.class("unspecified spelling");
    } else if w.found.is_none() {
        obs.nt(if with_default { "absent with default" } else { "absent without default" });
    } else if w.found == Some(Value::Null) && with_default {
        obs.nt("present null with default");
    } else if w.multibyte {
        obs.nt("string index across multi-byte characters");
    } else if w.negative {
        obs.nt("negative index");
    } else if w.escaped {
        obs.nt("escaped dot / backslash in a key");
    } else if w.comps.len() >= 2 {
        obs.nt("two or more steps");
    } else if w.string_index {
        obs.nt("string index");
    } else {
        obs.class("single step");
    }
    Ok(())
}

fn gen_walks() -> BoxedStrategy<Value> {
    (trees(), vec(any::<u16>(), 0..=4), vec(any::<bool>(), 4), prop_oneof![3 => Just(0u8), 1 => 1u8..=5], 0u64..8, prop_oneof![3 => gen::scalars(), 1 => Just(Value::Null), 1 => gen::op_shaped(), 1 => Just(json!({"var": "a"}))])
        .prop_map(|(data, choices, neg, perturb, form, default)| json!({"data": data, "choices": choices, "neg": neg, "perturb": perturb, "form": form, "default": default}))
        .boxed()
}

/// Whole-data forms: null, "", no operand, [] - with and without a default, on every kind of data.
fn check_whole(case: &Value, obs: &mut Obs) -> Result<(), String> {
    let data = &case["data"];
    let default = &case["default"];
    let forms = vec![json!({"var": null}), json!({"var": ""}), json!({"var": []}), json!({"var": [null]}), json!({"var": [""]}), json!({"var": [null, default]}), json!({"var": ["", default]})];
    for rule in forms {
        let literal_default = model::eval::as_operation(default).is_none();
        if !literal_default && rule["var"].as_array().map(|a| a.len() == 2).unwrap_or(false) {
            diff(&rule, data, obs, TraceMode::Multiset)?;
            continue;
        }
        match run(&rule, data, obs)? {
            Some(got) if model::identical(&got, data) => {}
            other => return Err(format!("{} must return the entire data {} but gave {:?}", rule, data, other.map(|v| v.to_string()))),
        }
        diff(&rule, data, obs, TraceMode::Multiset)?;
    }
    obs.nt(&format!("whole data of class {}", type_class(data)));
    Ok(())
}

fn gen_whole() -> BoxedStrategy<Value> {
    (prop_oneof![2 => trees(), 1 => gen::values()], gen::values()).prop_map(|(d, z)| json!({"data": d, "default": z})).boxed()
}

/// Integer keys: that key of an object, that index of an array or string, incl. the 64-bit boundaries.
fn check_int_key(case: &Value, obs: &mut Obs) -> Result<(), String> {
    let data = &case["data"];
    let i = case["i"].as_i64().unwrap_or(0);
    let rule = json!({"var": [i, SENTINEL]});
    let d = diff(&rule, data, obs, TraceMode::None)?;
    let expected: Value = match data {
        Value::Object(m) => m.get(&i.to_string()).cloned().unwrap_or(json!(SENTINEL)),
        Value::Array(a) => {
            let idx = if i >= 0 { i as i128 } else { a.len() as i128 + i as i128 };
            if idx >= 0 && (idx as usize) < a.len() {
                a[idx as usize].clone()
            } else {
                json!(SENTINEL)
            }
        }
        Value::String(s) => {
            let c: Vec<char> = s.chars().collect();
            let idx = if i >= 0 { i as i128 } else { c.len() as i128 + i as i128 };
            if idx >= 0 && (idx as usize) < c.len() {
                json!(c[idx as usize].to_string())
            } else {
                json!(SENTINEL)
            }
        }
        _ => json!(SENTINEL),
    };
    match &d.out {
        crate::imp::Out::Ok(got) if model::identical(got, &expected) => {}
        other => return Err(format!("{} on {} should be {}, got {}", rule, data, expected, other.short())),
    }
    // the same key written as a string path must agree
    let as_text = json!({"var": [i.to_string(), SENTINEL]});
    match run(&as_text, data, obs)? {
        Some(got) if model::identical(&got, &expected) => {}
        other => return Err(format!("integer key {} and its text {:?} disagree on {}: {} vs {:?}", i, i.to_string(), data, expected, other.map(|v| v.to_string()))),
    }
    if i.unsigned_abs() > (1 << 31) {
        obs.nt("64-bit boundary integer key");
    } else if i < 0 {
        obs.nt(&format!("negative integer key into {}", type_class(data)));
    } else {
        obs.nt(&format!("integer key into {}", type_class(data)));
    }
    Ok(())
}

fn gen_int_key() -> BoxedStrategy<Value> {
    let data = prop_oneof![
        2 => vec(gen::scalars(), 0..=5).prop_map(Value::Array),
        2 => gen::texts(6).prop_map(gen::j),
        2 => vec((select(vec!["0", "1", "-1", "2", "-2", "a", "9223372036854775807", "-9223372036854775808", "10"]), gen::scalars()), 0..=4).prop_map(|kv| {
            let mut m = Map::new();
            for (k, v) in kv {
                m.insert(k.to_string(), v);
            }
            Value::Object(m)
        }),
        1 => gen::scalars(),
    ];
    let ints = prop_oneof![6 => -7i64..=7, 2 => select(vec![i64::MIN, i64::MIN + 1, i64::MAX, -2147483648i64, 2147483648, -4294967296, 4294967296]), 1 => any::<i64>()];
    (data, ints).prop_map(|(d, i)| json!({"data": d, "i": i})).boxed()
}

/// First components of the paths a rule names in its *outer* data scope; None when the rule reads the whole data,
/// computes a key, or uses a key form outside the property (then the frame law is not applicable).
fn named_roots(rule: &Value, acc: &mut std::collections::BTreeSet<String>) -> Option<()> {
    let (name, operand) = match model::eval::as_operation(rule) {
        None => return Some(()),
        Some(x) => x,
    };
    let args = model::eval::operands(operand);
    let key_root = |k: &Value, acc: &mut std::collections::BTreeSet<String>| -> Option<()> {
        match k {
            Value::String(s) if s.is_empty() => None,
            Value::String(s) => {
                let parts = model::Ctx::split_path(s).ok()?;
                acc.insert(parts[0].clone());
                Some(())
            }
            Value::Number(n) if !n.is_f64() => {
                acc.insert(n.as_i64()?.to_string());
                Some(())
            }
            _ => None, // null = whole data, computed keys, other key types
        }
    };
    match name {
        "var" => {
            if args.is_empty() {
                return None;
            }
            key_root(args[0], acc)?;
            for a in &args[1..] {
                named_roots(a, acc)?;
            }
            Some(())
        }
        "missing" => {
            // every operand is evaluated (eagerly) even when a first-operand array makes the rest irrelevant as keys:
            // with any computed operand the named paths are not statically known
            if args.iter().any(|a| model::eval::as_operation(a).is_some()) {
                return None;
            }
            let keys: Vec<&Value> = match args.first() {
                Some(Value::Array(inner)) => inner.iter().collect(),
                _ => args.clone(),
            };
            for k in keys {
                if k.is_null() {
                    continue;
                }
                key_root(k, acc)?;
            }
            Some(())
        }
        "missing_some" => {
            if args.len() != 2 {
                return Some(());
            }
            named_roots(args[0], acc)?;
            match args[1] {
                Value::Array(keys) => {
                    for k in keys {
                        if k.is_null() {
                            continue;
                        }
                        key_root(k, acc)?;
                    }
                    Some(())
                }
                _ => None,
            }
        }
        "map" | "filter" | "reduce" => {
            // the element expression runs in the element's scope and cannot see the outer data at all
            if let Some(c) = args.first() {
                named_roots(c, acc)?;
            }
            if name == "reduce" {
                if let Some(z) = args.get(2) {
                    named_roots(z, acc)?;
                }
            }
            Some(())
        }
        "all" | "some" | "none" => {
            match args.first() {
                Some(Value::Array(items)) => {
                    for e in items {
                        named_roots(e, acc)?;
                    }
                }
                Some(c) => named_roots(c, acc)?,
                None => {}
            }
            Some(())
        }
        _ => {
            for a in args {
                named_roots(a, acc)?;
            }
            Some(())
        }
    }
}

/// "parts of the data not named by the rule's paths never influence the result", for arbitrary rules
fn check_frame_general(case: &Value, obs: &mut Obs) -> Result<(), String> {
    let (rule, data) = (rule_of(case), data_of(case));
    let obj = match data {
        Value::Object(o) => o,
        _ => {
            obs.class("data is not an object");
            return Ok(());
        }
    };
    let mut roots = std::collections::BTreeSet::new();
    if named_roots(rule, &mut roots).is_none() {
        obs.class("rule reads the whole data or computes a key");
        return Ok(());
    }
    if let (Res::Unspec("over_budget"), _) = model::eval(rule, data) {
        obs.skip("over_budget");
        return Ok(());
    }
    let mut changed = Map::new();
    let mut touched = 0;
    for (k, v) in obj {
        if roots.contains(k) {
            changed.insert(k.clone(), v.clone());
        } else {
            touched += 1;
            match case["mode"].as_u64().unwrap_or(0) % 3 {
                0 => {
                    changed.insert(k.clone(), json!({"frame": ["changed", k]}));
                }
                1 => {} // removed
                _ => {
                    changed.insert(k.clone(), Value::Null);
                }
            }
        }
    }
    let mut extra = "§frame-extra§".to_string();
    while roots.contains(&extra) {
        extra.push('§');
    }
    changed.insert(extra, json!([1, {"var": "a"}]));
    let changed = Value::Object(changed);
    let a = crate::imp::apply_traced(rule, data);
    let b = crate::imp::apply_traced(rule, &changed);
    obs.evals += 2;
    sanity(&a, rule, data)?;
    sanity(&b, rule, &changed)?;
    let same = match (&a.out, &b.out) {
        (crate::imp::Out::Ok(x), crate::imp::Out::Ok(y)) => model::identical(x, y) && a.lines == b.lines,
        (crate::imp::Out::Err(_), crate::imp::Out::Err(_)) => true,
        _ => false,
    };
    if !same {
        return Err(format!("data not named by the rule's paths influenced the result: {} names only {:?}; on {} it gives {} {:?} but on {} it gives {} {:?}", rule, roots, data, a.out.short(), a.lines, changed, b.out.short(), b.lines));
    }
    if !roots.is_empty() && touched > 0 {
        obs.nt(&format!("{} named root(s), {} unrelated member(s) changed", roots.len().min(3), touched.min(3)));
    } else {
        obs.class("nothing named or nothing unrelated");
    }
    Ok(())
}

fn gen_frame_general() -> BoxedStrategy<Value> {
    let cfg = rules::Cfg::all_ops().keys(&["a", "b", "c", "0", "1", "a.b", "xs", "k", "é"]).vars(10).poison(1).bad_arity(10);
    (rules::rooted(cfg), gen::object_of(gen::values(), 6), 0u64..3).prop_map(|(r, d, m)| json!({"rule": r, "data": d, "mode": m})).boxed()
}

fn check_rules(case: &Value, obs: &mut Obs) -> Result<(), String> {
    let d = diff(rule_of(case), data_of(case), obs, TraceMode::Multiset)?;
    if matches!(d.model, Res::Ok(_)) && (d.ctx.var_deep > 0 || d.ctx.var_negative > 0 || d.ctx.var_string_index > 0 || d.ctx.var_default_used > 0) {
        obs.nt("var inside a larger rule");
    }
    Ok(())
}

fn gen_rules() -> BoxedStrategy<Value> {
    let cfg = rules::Cfg::new(&["var", "var", "var", "cat", "if", "map", "merge", "+"]).vars(8).poison(0).bad_arity(10);
    gen::case2(rules::rooted(cfg), gen::data_docs())
}


/// accumulated state: see common::sweep
fn sweep_item(kind: u64, k: usize) -> (Value, Value) {
    match kind % 3 {
        0 => (json!({"var": format!("k{}.v", k)}), json!({format!("k{}", k): {"v": k}, "k0": {"v": "zero"}})),
        1 => (json!({"var": [format!("a.{}", k % 7), format!("d{}", k)]}), json!({"a": [0, 1, 2, 3, 4]})),
        _ => (json!({"var": format!("x\\.{}", k)}), json!({format!("x.{}", k): k})),
    }
}

fn check_state_sweep(case: &Value, obs: &mut Obs) -> Result<(), String> {
    let w = case["w"].as_u64().unwrap_or(1) as usize;
    let kind = case["kind"].as_u64().unwrap_or(0);
    sweep(w, &|k| sweep_item(kind, k), obs)?;
    obs.nt(&format!("sweep kind {} W {}", kind, if w < 64 { "<64" } else if w < 128 { "64-127" } else { "128+" }));
    Ok(())
}

fn fixed_state_sweeps() -> Vec<Value> {
    sweep_cases(3, 300)
}


fn gen_per_element() -> BoxedStrategy<Value> {
    let cfg = rules::Cfg::new(&["var", "var", "var", "cat", "if", "merge"]).vars(8).poison(0).bad_arity(0);
    per_element_cases(rules::rooted(cfg), gen::data_docs())
}


const KINDS: u64 = 8;
fn check_sizes(case: &Value, obs: &mut Obs) -> Result<(), String> {
    let n = case["n"].as_u64().unwrap_or(1) as usize;
    let k = case["k"].as_u64().unwrap_or(0);
    let ni = n as i64;
    let arr = sized_array(n);
    let (rule, data) = match k {
        0 => (json!({"var": [format!("xs.{}", n - 1), "dflt"]}), json!({"xs": arr})),
        1 => (json!({"var": [format!("xs.{}", n), "dflt"]}), json!({"xs": arr})),
        2 => (json!({"var": [-ni, "dflt"]}), arr),
        3 => (json!({"var": [-ni - 1, "dflt"]}), arr),
        4 => (json!({"var": [ni - 1, "dflt"]}), json!(sized_string(n))),
        5 => (json!({"var": [format!("s.{}", n), "dflt"]}), json!({"s": sized_string(n)})),
        6 => {
            let mut m = serde_json::Map::new();
            for i in 0..n {
                m.insert(format!("k{}", i), json!(i));
            }
            (json!({"var": [format!("o.k{}", n - 1), "dflt"]}), json!({"o": m}))
        }
        _ => (json!({"var": [format!("k{}", "x".repeat(n)), "dflt"]}), json!({format!("k{}", "x".repeat(n)): 5})),
    };
    size_case(&rule, &data, obs, &format!("size kind {} n {}", k, if n < 1000 { "~2^8" } else if n < 10000 { "~2^12" } else { "~2^16" }))
}

fn fixed_sizes() -> Vec<Value> {
    let mut out = vec![];
    for n in SIZE_EDGES {
        for k in 0..KINDS {
            out.push(json!({"n": n, "k": k}));
        }
    }
    out
}

pub fn property() -> Property {
    Property {
        id: "C11",
        subs: vec![
            Sub {
                name: "size_boundaries",
                about: "arrays, strings and objects of exactly 255 ... 65537 elements / characters / keys: the last index and the first absent one (positive, negative, as path component and as integer key), the last key of an n-key object, a key that is n characters long, against the reference model.",
                nontrivial: "every case.",
                strategy: None,
                fixed: Some(fixed_sizes),
                fixed_exhaustive: true,
                check: check_sizes,
                quick: 0,
                thorough: 0,
                small_stack: false,
            },
            Sub {
                name: "fuzz_corpus_replay",
                about: "every committed corpus input and saved artifact of the libFuzzer target fz_path - one application of var (data document, path, default) whose operands are written by the fuzzer as text lines (a line that parses as JSON is that value, any other line is a raw string such as ` 0x1F ` or `12px`; operands literal or through var) - replayed through the target's own body against the reference model; the committed corpus is the coverage-distinct set distilled from campaigns on the unchanged tree, so each input reaches a different piece of the implementation. The thorough tier additionally runs the coverage-guided campaign.",
                nontrivial: "the decoded rule is evaluated and the model determines the outcome.",
                strategy: None,
                fixed: Some(|| fuzz_corpus_cases("fz_path")),
                fixed_exhaustive: false,
                check: check_fuzz_case,
                quick: 0,
                thorough: 0,
                small_stack: false,
            },
            Sub {
                name: "per_element",
                about: "this property's operators inside an expression used as the body of map / filter / all / some / none over 2-5 different elements: element by element the outcome must be what the expression gives on that element alone (model-free per-element law); catches anything the shared evaluation machinery remembers from one element to the next.",
                nontrivial: "the expression gives different results on different elements.",
                strategy: Some(gen_per_element),
                fixed: None,
                fixed_exhaustive: false,
                check: per_element_law,
                quick: 40_000,
                thorough: 2_000_000,
                small_stack: false,
            },
            Sub {
                name: "state_sweep",
                about: "accumulated state: for every W in 1..300 and each kind of keyed work of this operator family (distinct dotted paths, indexed paths with per-item defaults, escaped-dot keys), W hot items are evaluated twice, then a new item, the hot set again, another new item, and everything in reverse; every call against the reference model - a cache, pool or table with any capacity up to 300 is driven exactly over its boundary.",
                nontrivial: "every case.",
                strategy: None,
                fixed: Some(fixed_state_sweeps),
                fixed_exhaustive: false,
                check: check_state_sweep,
                quick: 0,
                thorough: 0,
                small_stack: false,
            },
            Sub {
                name: "walks",
                about: "data trees (objects with dotted / backslashed / numeric / empty / non-ASCII keys, arrays, strings with multi-byte characters, scalars, null fields) with a walk built by construction (object key, array index, character index; non-negative or negative), optionally damaged (index one past either end, non-integer index, missing key, step into a scalar); key written as escaped path, integer, computed with cat, or read from the data; with and without default; oracle = the value found by construction and the model; frame law: replacing everything off the path (and adding members) never changes the result.",
                nontrivial: "two or more steps, negative index, string index across multi-byte characters, escaped character, present null with default, or absent path.",
                strategy: Some(gen_walks),
                fixed: None,
                fixed_exhaustive: false,
                check: check_walk,
                quick: 250_000,
                thorough: 12_000_000,
                small_stack: false,
            },
            Sub {
                name: "whole_data",
                about: "null, \"\", [] and [null] / [\"\"] key forms with and without a default on arbitrary data: must return the entire data unchanged.",
                nontrivial: "every case.",
                strategy: Some(gen_whole),
                fixed: None,
                fixed_exhaustive: false,
                check: check_whole,
                quick: 40_000,
                thorough: 2_000_000,
                small_stack: false,
            },
            Sub {
                name: "integer_keys",
                about: "integer keys -7..7, the 64-bit boundaries and random i64 against arrays, strings and objects with numeric keys; direct restatement of the indexing rule, the model, and agreement with the same key written as text.",
                nontrivial: "every case (classified by sign, magnitude and kind of data).",
                strategy: Some(gen_int_key),
                fixed: None,
                fixed_exhaustive: false,
                check: check_int_key,
                quick: 80_000,
                thorough: 4_000_000,
                small_stack: false,
            },
            Sub {
                name: "frame_general",
                about: "arbitrary generated rules over all 35 operators on object data: the first components of every path the rule names in its outer scope (var, missing, missing_some with literal keys; element expressions of map / filter / reduce and predicates of all / some / none run in their own scope) are computed statically; every other top-level member is replaced, removed or nulled and an unrelated member is added; value, error-ness and log lines must not change (model-free).",
                nontrivial: "the rule names at least one path and at least one unrelated member was changed.",
                strategy: Some(gen_frame_general),
                fixed: None,
                fixed_exhaustive: false,
                check: check_frame_general,
                quick: 80_000,
                thorough: 4_000_000,
                small_stack: false,
            },
            Sub {
                name: "rules_model",
                about: "generated rules around var (computed keys, defaults that are expressions, var inside map / if / cat) against the model.",
                nontrivial: "a lookup with >= 2 steps, a negative or string index, or a used default.",
                strategy: Some(gen_rules),
                fixed: None,
                fixed_exhaustive: false,
                check: check_rules,
                quick: 80_000,
                thorough: 4_000_000,
                small_stack: false,
            },
        ],
        assumptions: vec!["U2: paths with an empty last component, a dangling backslash or non-canonical integer spellings on arrays/strings are skipped", "U3: keys that are not string / integer / null are skipped", "U14: evaluation of the default when the key is present"],
    }
}
