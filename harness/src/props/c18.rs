//! C18 - the jsonlogic command is a faithful, chainable wrapper of the library.

use super::common::cli_stdout_matches;
use crate::cli::{self, Channel};
use crate::gen::{self, rules};
use crate::imp::{self, Out};
use crate::runner::{splitmix, Obs, Property, Sub};
use proptest::prelude::*;
use proptest::sample::select;
use serde_json::{json, Value};

struct Speller {
    state: u64,
    /// 0 = canonical compact text
    level: u64,
}
impl Speller {
    fn next(&mut self, n: u64) -> u64 {
        self.state = splitmix(self.state);
        if self.level == 0 {
            0
        } else {
            self.state % n
        }
    }
    fn ws(&mut self) -> &'static str {
        ["", "", "", " ", "\n", "\t", "  ", "\r\n"][self.next(8) as usize]
    }
    fn string(&mut self, s: &str, out: &mut String) {
        out.push('"');
        for c in s.chars() {
            let how = self.next(6);
            match c {
                '"' => out.push_str("\\\""),
                '\\' => out.push_str("\\\\"),
                '\n' => out.push_str(if how == 1 { "\\u000a" } else { "\\n" }),
                '\r' => out.push_str("\\r"),
                '\t' => out.push_str("\\t"),
                '/' if how == 1 => out.push_str("\\/"),
                c if (c as u32) < 0x20 => out.push_str(&format!("\\u{:04x}", c as u32)),
                c if how == 2 => {
                    let mut buf = [0u16; 2];
                    for u in c.encode_utf16(&mut buf) {
                        out.push_str(&format!("\\u{:04X}", u));
                    }
                }
                c => out.push(c),
            }
        }
        out.push('"');
    }
    fn number(&mut self, n: &serde_json::Number, out: &mut String) {
        let canonical = n.to_string();
        let how = self.next(8);
        if let Some(i) = n.as_i64() {
            match how {
                1 => out.push_str(&format!("{}.0", i)),
                2 => out.push_str(&format!("{}e0", i)),
                3 => out.push_str(&format!("{}E+0", i)),
                4 if i % 10 == 0 && i != 0 => out.push_str(&format!("{}e1", i / 10)),
                5 => out.push_str(&format!("{}.000", i)),
                _ => out.push_str(&canonical),
            }
        } else {
            match how {
                1 if canonical.contains('e') => out.push_str(&canonical.replace('e', "E")),
                2 if !canonical.contains('e') => out.push_str(&format!("{}e0", canonical)),
                3 if !canonical.contains('e') => out.push_str(&format!("{}0", canonical)),
                _ => out.push_str(&canonical),
            }
        }
    }
    fn value(&mut self, v: &Value, out: &mut String) {
        match v {
            Value::Null => out.push_str("null"),
            Value::Bool(b) => out.push_str(if *b { "true" } else { "false" }),
            Value::Number(n) => self.number(n, out),
            Value::String(s) => self.string(s, out),
            Value::Array(a) => {
                out.push('[');
                out.push_str(self.ws());
                for (i, e) in a.iter().enumerate() {
                    if i > 0 {
                        out.push_str(self.ws());
                        out.push(',');
                        out.push_str(self.ws());
                    }
                    self.value(e, out);
                }
                out.push_str(self.ws());
                out.push(']');
            }
            Value::Object(o) => {
                out.push('{');
                out.push_str(self.ws());
                for (i, (k, e)) in o.iter().enumerate() {
                    if i > 0 {
                        out.push_str(self.ws());
                        out.push(',');
                        out.push_str(self.ws());
                    }
                    self.string(k, out);
                    out.push_str(self.ws());
                    out.push(':');
                    out.push_str(self.ws());
                    self.value(e, out);
                }
                out.push_str(self.ws());
                out.push('}');
            }
        }
    }
}

/// A JSON text for `v`: whitespace, escapes and number spellings vary with `seed` (0 = compact canonical text).
pub fn spell(v: &Value, seed: u64) -> String {
    let mut sp = Speller { state: seed, level: seed };
    let mut out = String::new();
    out.push_str(sp.ws());
    sp.value(v, &mut out);
    out.push_str(sp.ws());
    out
}

fn damage(text: &str, how: u8, at: u16) -> String {
    let chars: Vec<char> = text.chars().collect();
    let k = gen::pick(at, chars.len() + 1);
    match how % 24 {
        16 => format!("\u{000B}{}", text),            // vertical tab: white space for many trimmers, not for JSON
        17 => format!("{}\u{000C}", text),            // form feed
        18 => format!("\u{00A0}{}\u{0085}", text),
        19 => format!("{}\u{2028}", text),
        20 => format!("\u{3000}{}", text),
        21 => format!("{}\n{}", text, text),          // two documents on two lines
        22 => format!("garbage\n{}", text),           // only the last line is valid JSON
        23 => format!("{}\n\n{}\n", "\"log line\"", text),
        0 => chars[..k.min(chars.len().saturating_sub(1))].iter().collect(), // truncation
        1 => format!("{}x", text),
        2 => format!("{} }}", text),
        3 => format!("{},", text),
        4 => format!("{} 1", text),
        5 => "nul".to_string(),
        6 => "True".to_string(),
        7 => "NaN".to_string(),
        8 => String::new(),
        9 => "'a'".to_string(),
        10 => format!("{}{}{}", "[".repeat(129), text, "]".repeat(129)),
        11 => format!("\u{FEFF}{}", text),
        12 => format!("{} // comment", text),
        13 => format!("[{},]", text),
        14 => "\"\\ud800\"".to_string(),
        _ => {
            let mut c = chars.clone();
            if !c.is_empty() {
                let i = k.min(c.len() - 1);
                c[i] = '\u{7f}';
            }
            c.into_iter().collect()
        }
    }
}

fn is_option_syntax(t: &str) -> bool {
    if t == "--" {
        return true;
    }
    if let Some(rest) = t.strip_prefix("--") {
        return rest == "help" || rest == "version" || rest.starts_with("help=") || rest.starts_with("version=");
    }
    if let Some(rest) = t.strip_prefix('-') {
        return !rest.is_empty() && rest.chars().all(|c| c == 'h' || c == 'V');
    }
    false
}

struct Expect {
    /// the log lines the library writes (before a failure, if it fails)
    lines: Vec<String>,
    /// None = must fail (parse error or evaluation error)
    value: Option<Value>,
    ok: bool,
    has_log: bool,
}

/// what the library does on the values these texts deliver
fn library(rule_text: &str, data_text: &str, obs: &mut Obs) -> Result<Expect, String> {
    let rule: Result<Value, _> = serde_json::from_str(rule_text);
    let data: Result<Value, _> = serde_json::from_str(data_text);
    match (rule, data) {
        (Ok(r), Ok(d)) => {
            let t = imp::apply_traced(&r, &d);
            obs.evals += 1;
            if let Out::Panic(m) = &t.out {
                return Err(format!("PANIC in the library: {} for rule text {:?} data text {:?}", m, rule_text, data_text));
            }
            let has_log = !t.lines.is_empty();
            match t.out {
                Out::Ok(v) => Ok(Expect { lines: t.lines, value: Some(v), ok: true, has_log }),
                _ => Ok(Expect { lines: t.lines, value: None, ok: false, has_log }),
            }
        }
        (Err(_), _) => Ok(Expect { lines: vec![], value: None, ok: false, has_log: false }),
        // the data text is only parsed after the rule text; nothing has been evaluated
        (Ok(_), Err(_)) => Ok(Expect { lines: vec![], value: None, ok: false, has_log: false }),
    }
}

fn compare(out: &cli::CliOut, want: &Expect, what: &str, rule_text: &str, data_text: &str) -> Result<(), String> {
    let ctx = || format!("rule text {:?}, data text {:?} ({})", rule_text, data_text, what);
    if out.timed_out {
        return Err(format!("the command did not finish within 180 s (after a first attempt exceeded 30 s): {}", ctx()));
    }
    let stdout = String::from_utf8_lossy(&out.stdout).to_string();
    let stderr = String::from_utf8_lossy(&out.stderr).to_string();
    if stderr.contains("panicked") || out.code == Some(101) || out.code.is_none() {
        return Err(format!("the command crashed (status {:?}, signal {:?}, stderr {:?}): {}", out.code, out.signal, stderr.chars().take(200).collect::<String>(), ctx()));
    }
    if want.ok {
        if out.code != Some(0) {
            return Err(format!("the library returns {} but the command exits {:?} with stderr {:?}: {}", want.value.as_ref().map(|v| v.to_string()).unwrap_or_default(), out.code, stderr.chars().take(200).collect::<String>(), ctx()));
        }
    } else if out.code == Some(0) {
        return Err(format!("parsing or evaluation fails in the library but the command exits 0 with stdout {:?}: {}", stdout, ctx()));
    }
    cli_stdout_matches(&stdout, &want.lines, want.value.as_ref()).map_err(|e| format!("{}: {}", e, ctx()))
}

fn check_texts(case: &Value, obs: &mut Obs) -> Result<(), String> {
    let rule_text = case["rule_text"].as_str().unwrap_or("");
    let data_text = case["data_text"].as_str().unwrap_or("");
    let profile = if case["release"].as_bool().unwrap_or(false) { "release" } else { "dev" };
    if is_option_syntax(rule_text) || rule_text.contains('\0') {
        obs.skip("U12");
        return Ok(());
    }
    let bin = match cli::bin(profile) {
        Some(b) => b,
        None => return Err("oracle_broken: CLI binary missing".into()),
    };
    let want = library(rule_text, data_text, obs)?;
    let mut channels = vec![("stdin without argument", Channel::StdinNoArg(data_text.to_string())), ("stdin with -", Channel::StdinDash(data_text.to_string()))];
    if !is_option_syntax(data_text) && !data_text.contains('\0') && data_text != "-" {
        channels.insert(0, ("argument", Channel::Arg(data_text.to_string())));
        // when the data is an argument, whatever waits on stdin is irrelevant
        channels.insert(1, ("argument, with an unrelated valid JSON text on stdin", Channel::ArgWithDecoyStdin(data_text.to_string(), "{\"decoy\":[\"STDIN\",7]}".to_string())));
    } else {
        obs.skip("U12");
    }
    for (name, ch) in &channels {
        let out = cli::run(&bin, rule_text, ch)?;
        obs.evals += 1;
        compare(&out, &want, &format!("{}, data by {}", profile, name), rule_text, data_text)?;
    }
    let valid = serde_json::from_str::<Value>(rule_text).is_ok() && serde_json::from_str::<Value>(data_text).is_ok();
    if !valid {
        obs.nt("invalid JSON text");
    } else if !want.ok {
        obs.nt("evaluation error");
    } else if want.has_log {
        obs.nt("log lines before the result");
    } else if rule_text.trim_start().starts_with('-') || data_text.trim_start().starts_with('-') {
        obs.nt("text starts with a minus sign");
    } else {
        obs.nt("valid texts, three data channels");
    }
    Ok(())
}

fn cli_rules() -> gen::VS {
    let cfg = rules::Cfg::all_ops().poison(2).bad_arity(30).depth(2);
    prop_oneof![4 => rules::rooted(cfg), 2 => gen::values(), 1 => gen::numbers(), 1 => Just(json!({"var": ""})), 1 => Just(json!({"log": [{"var": ""}]}))].boxed()
}

fn gen_texts() -> BoxedStrategy<Value> {
    (cli_rules(), gen::data_docs(), prop_oneof![2 => Just(0u64), 3 => any::<u64>()], prop_oneof![2 => Just(0u64), 3 => any::<u64>()], prop_oneof![8 => Just(None), 1 => (any::<u8>(), any::<u16>()).prop_map(Some)], prop_oneof![8 => Just(None), 1 => (any::<u8>(), any::<u16>()).prop_map(Some)], any::<bool>())
        .prop_map(|(rule, data, s1, s2, d1, d2, rel)| {
            let mut rt = spell(&rule, s1);
            let mut dt = spell(&data, s2);
            if let Some((how, at)) = d1 {
                rt = damage(&rt, how, at);
            }
            if let Some((how, at)) = d2 {
                dt = damage(&dt, how, at);
            }
            json!({"rule_text": rt, "data_text": dt, "release": rel})
        })
        .boxed()
}

fn fixed_texts() -> Vec<Value> {
    let pairs: Vec<(&str, &str)> = vec![
        ("{\"var\":\"\"}", "-5"), ("-5", "null"), ("-5 ", "null"), (" -5", " null "), ("-0.5e-3", "-1"), ("{\"var\":\"\"}", "-0"), ("{\"var\":\"\"}", "-1e400"), ("-", "null"), ("--1", "null"), ("-x", "1"),
        ("1", "-x"), ("{\"+\":[1,{\"var\":\"\"}]}", "-41"), ("null", ""), ("", "null"), ("{\"var\":\"a\"}", "{\"a\":\"x😀y\"}"), ("{\"var\":\"a\"}", "{\"a\":\"\\ud83d\\ude00\"}"), ("{\"cat\":[\"é\",{\"var\":\"\"}]}", "\"日本\""),
        ("{\"log\":[{\"var\":\"\"}]}", "[1,2,{\"k\":\"line\\nbreak\"}]"), ("{\"if\":[{\"log\":\"a\"},{\"+\":[\"x\"]},1]}", "null"), ("{\"==\":[1]}", "null"), ("{\"var\":\"\"}", "1e0"), ("{\"var\":\"\"}", "1.0"),
        ("{\"var\":\"\"}", "10000000000000000000000"), ("{\"var\":\"\"}", "18446744073709551615"), ("{\"var\":\"\"}", "[1e21, 1e-7, 0.1]"), ("{\"var\":\"\"}", "{\"b\":1,\"a\":2,\"a\":3}"), ("[{\"var\":\"a\"}]", "{\"a\":1}"),
        ("\"-h\"", "null"), ("{\"var\":\"\"}", "\"--version\""), ("{\"var\":\"\"}", "nul"), ("{\"var\":\"\"}", "NaN"), ("{\"var\":\"\"}", "[1,]"), ("{\"var\":\"\"}", "\u{FEFF}1"), ("{\"var\":\"\"} x", "1"),
        ("{\"var\":\"\"}", "\"\\u0000\""), ("{\"var\":\"\"}", "\"\\ud800\""), ("{\"var\":\"\"}", "-"),
        // spellings other tools accept and JSON does not: single quotes, bare keys, comments, hex / octal numbers, concatenated documents
        ("{'var': 'a'}", "{\"a\": 1}"), ("{\"var\":\"\"}", "['x', 'y']"), ("'abc'", "null"), ("{var: \"a\"}", "{\"a\": 1}"), ("{\"var\":\"\"} // rule", "1"), ("/* c */ 1", "null"), ("{\"var\":\"\"}", "0x10"),
        ("{\"var\":\"\"}", "010"), ("{\"var\":\"\"}", "1 2"), ("{\"var\":\"a\"}", "{\"a\": 1}\n{\"a\": 2}"), ("{\"var\":\"\"}", "+1"), ("{\"var\":\"\"}", ".5"), ("{\"var\":\"\"}", "True"), ("{\"var\":\"\"}", "None"), ("{\"var\":\"\"}", "undefined"),
    ];
    let mut out = vec![];
    for (r, d) in pairs {
        for rel in [false, true] {
            out.push(json!({"rule_text": r, "data_text": d, "release": rel}));
        }
    }
    let deep_ok = format!("{}1{}", "[".repeat(127), "]".repeat(127));
    let deep_bad = format!("{}1{}", "[".repeat(129), "]".repeat(129));
    out.push(json!({"rule_text": "{\"var\":\"\"}", "data_text": deep_ok, "release": false}));
    out.push(json!({"rule_text": "{\"var\":\"\"}", "data_text": deep_bad, "release": false}));
    out.push(json!({"rule_text": deep_bad, "data_text": "1", "release": true}));
    out
}

/// piping the output into a second invocation computes apply(rule2, parse(output1))
fn check_chain(case: &Value, obs: &mut Obs) -> Result<(), String> {
    let rule1 = case["rule1"].as_str().unwrap_or("null");
    let rule2 = case["rule2"].as_str().unwrap_or("null");
    let data = case["data"].as_str().unwrap_or("null");
    let bin = match cli::bin(if case["release"].as_bool().unwrap_or(false) { "release" } else { "dev" }) {
        Some(b) => b,
        None => return Err("oracle_broken: CLI binary missing".into()),
    };
    let first = cli::run(&bin, rule1, &Channel::StdinNoArg(data.to_string()))?;
    obs.evals += 1;
    let want1 = library(rule1, data, obs)?;
    compare(&first, &want1, "first stage", rule1, data)?;
    if !want1.ok {
        obs.class("first stage fails: no chaining");
        return Ok(());
    }
    if want1.has_log {
        // log lines + result line are several JSON documents: as the data of a second stage that is malformed text
        let piped = String::from_utf8_lossy(&first.stdout).to_string();
        if serde_json::from_str::<Value>(&piped).is_err() {
            for ch in [Channel::StdinNoArg(piped.clone()), Channel::StdinDash(piped.clone())] {
                let second = cli::run(&bin, rule2, &ch)?;
                obs.evals += 1;
                let want2 = Expect { lines: vec![], value: None, ok: false, has_log: false };
                compare(&second, &want2, "second stage fed with log lines + result of the first", rule2, &piped)?;
            }
            obs.nt("chained after a logging stage: malformed input must be refused");
        }
        return Ok(());
    }
    let piped = String::from_utf8_lossy(&first.stdout).to_string();
    // the output must be valid JSON
    let parsed: Value = serde_json::from_str(&piped).map_err(|e| format!("the output of the command is not valid JSON ({}): {:?} from rule text {:?} data text {:?}", e, piped, rule1, data))?;
    let channel = match case["channel"].as_u64().unwrap_or(0) % 2 {
        0 => Channel::StdinNoArg(piped.clone()),
        _ => Channel::StdinDash(piped.clone()),
    };
    let second = cli::run(&bin, rule2, &channel)?;
    obs.evals += 1;
    // expected: the second rule on the *parsed output* of the first
    let r2: Value = serde_json::from_str(rule2).map_err(|e| format!("oracle_broken: rule2 text invalid: {}", e))?;
    let t = imp::apply_traced(&r2, &parsed);
    obs.evals += 1;
    let want2 = match &t.out {
        Out::Ok(v) => Expect { lines: t.lines.clone(), value: Some(v.clone()), ok: true, has_log: !t.lines.is_empty() },
        Out::Err(_) => Expect { lines: t.lines.clone(), value: None, ok: false, has_log: false },
        Out::Panic(m) => return Err(format!("PANIC in the library: {}", m)),
    };
    compare(&second, &want2, "second stage of a pipe", rule2, &piped)?;
    if !piped.is_ascii() {
        obs.nt("chained, non-ASCII intermediate value");
    } else if parsed.is_array() || parsed.is_object() {
        obs.nt("chained, container intermediate value");
    } else {
        obs.nt("chained, primitive intermediate value");
    }
    Ok(())
}

fn gen_chain() -> BoxedStrategy<Value> {
    let first = prop_oneof![
        3 => Just(json!({"var": ""})),
        1 => Just(json!({"+": [{"log": {"var": "a"}}, 1]})),
        1 => Just(json!({"log": [{"var": "xs"}]})),
        1 => Just(json!({"cat": [{"log": "first"}, {"log": {"var": "s"}}]})),
        2 => select(vec!["a", "b", "xs", "s", "é"]).prop_map(|k| json!({"var": k})),
        1 => Just(json!({"merge": [{"var": "xs"}, ["x😀y", "é"]]})),
        1 => Just(json!({"cat": [{"var": "s"}, "𝄞", {"var": "é"}]})),
        1 => Just(json!({"map": [{"var": "xs"}, {"*": [{"var": ""}, 1.5]}]})),
        1 => Just(json!({"+": [{"var": "a"}, 1e19]})),
        1 => rules::rooted(rules::Cfg::new(&["var", "cat", "merge", "+", "if", "map", "filter", "substr"]).keys(&["a", "b", "xs", "s", "é", ""]).poison(0).bad_arity(0).depth(2)),
    ];
    let second = prop_oneof![
        3 => Just(json!({"var": ""})),
        1 => Just(json!({"===": [{"var": ""}, {"var": ""}]})),
        1 => Just(json!({"cat": ["<", {"var": ""}, ">"]})),
        1 => Just(json!({"map": [{"var": ""}, {"var": ""}]})),
        1 => Just(json!({"var": "0"})),
        1 => Just(json!({"+": [{"var": ""}, 0]})),
        1 => Just(json!({"substr": [{"var": ""}, 1]})),
        1 => Just(json!({"in": ["😀", {"var": ""}]})),
    ];
    let data = (gen::scalars(), gen::scalars(), proptest::collection::vec(prop_oneof![2 => gen::numbers(), 1 => gen::texts(4).prop_map(gen::j)], 0..=4), gen::texts(6), gen::texts(3)).prop_map(|(a, b, xs, s, e)| json!({"a": a, "b": b, "xs": xs, "s": s, "é": e}));
    (first, second, data, any::<u64>(), any::<bool>(), 0u64..2).prop_map(|(r1, r2, d, seed, rel, ch)| json!({"rule1": spell(&r1, seed % 3), "rule2": r2.to_string(), "data": spell(&d, seed), "release": rel, "channel": ch})).boxed()
}

/// the data arrives on stdin in two writes with a pause in between (a slow producer in a pipeline)
fn check_chunked(case: &Value, obs: &mut Obs) -> Result<(), String> {
    let rule_text = case["rule_text"].as_str().unwrap_or("null");
    let data_text = case["data_text"].as_str().unwrap_or("null");
    let bin = match cli::bin("release") {
        Some(b) => b,
        None => return Err("oracle_broken: CLI binary missing".into()),
    };
    let want = library(rule_text, data_text, obs)?;
    let at = gen::pick(case["at"].as_u64().unwrap_or(0) as u16, data_text.len() + 1);
    let mut cut = at;
    while cut > 0 && !data_text.is_char_boundary(cut) {
        cut -= 1;
    }
    let out = cli::run(&bin, rule_text, &Channel::StdinChunked(data_text.to_string(), cut, 60))?;
    obs.evals += 1;
    compare(&out, &want, &format!("stdin written as {} + {} bytes with a 60 ms pause", cut, data_text.len() - cut), rule_text, data_text)?;
    obs.nt(if want.ok { "chunked stdin, valid" } else { "chunked stdin, failing" });
    Ok(())
}

fn gen_chunked() -> BoxedStrategy<Value> {
    (prop_oneof![3 => Just(json!({"var": ""})), 1 => Just(json!({"var": "1"})), 1 => Just(json!({"cat": [{"var": ""}]}))], prop_oneof![2 => gen::data_docs(), 1 => gen::numbers(), 1 => proptest::collection::vec(gen::small_ints(), 2..=6).prop_map(Value::Array)], any::<u64>(), any::<u16>(), prop_oneof![6 => Just(None), 1 => (any::<u8>(), any::<u16>()).prop_map(Some)])
        .prop_map(|(r, d, seed, at, dmg)| {
            let mut dt = spell(&d, seed);
            if let Some((how, k)) = dmg {
                dt = damage(&dt, how, k);
            }
            json!({"rule_text": r.to_string(), "data_text": dt, "at": at})
        })
        .boxed()
}


// ------------------------------------------------------------------------------------------------ files named like the texts

const DECOY_NAMES: &[&str] = &["data.json", "@data.json", "rule.json", "null", "1", "x", "nul", "{", "[1", "true", "\"a\"", "a.json", "@-", "input", "{\"a\":1}x"];

fn decoy_dir() -> Result<String, String> {
    static DIR: std::sync::Mutex<Option<String>> = std::sync::Mutex::new(None);
    let mut g = DIR.lock().unwrap();
    if let Some(d) = &*g {
        return Ok(d.clone());
    }
    let root = std::env::var("JLV_ROOT").unwrap_or_else(|_| ".".into());
    let dir = format!("{}/target/cli-decoys", root);
    std::fs::create_dir_all(&dir).map_err(|e| format!("oracle_broken: cannot create {}: {}", dir, e))?;
    for n in DECOY_NAMES {
        std::fs::write(format!("{}/{}", dir, n), "{\"cat\":[\"FROM-A-FILE\"]}").map_err(|e| format!("oracle_broken: cannot write decoy file {:?}: {}", n, e))?;
    }
    *g = Some(dir.clone());
    Ok(dir)
}

/// The arguments are texts, never file names: with files named like the argument (each holding a valid rule) in the
/// working directory, the command must still do exactly what the library does with the argument as text.
fn check_file_decoys(case: &Value, obs: &mut Obs) -> Result<(), String> {
    let name = case["name"].as_str().unwrap_or("x");
    let profile = if case["release"].as_bool().unwrap_or(false) { "release" } else { "dev" };
    let bin = match cli::bin(profile) {
        Some(b) => b,
        None => return Err("oracle_broken: CLI binary missing".into()),
    };
    let dir = decoy_dir()?;
    let env = cli::Env { clear: false, vars: vec![], cwd: dir };
    let as_data = case["as_data"].as_bool().unwrap_or(true);
    let (rule_text, data_text) = if as_data { ("{\"var\":\"\"}".to_string(), name.to_string()) } else { (name.to_string(), "null".to_string()) };
    let want = library(&rule_text, &data_text, obs)?;
    let mut channels = vec![("argument", Channel::Arg(data_text.clone()))];
    if as_data {
        channels.push(("stdin without argument", Channel::StdinNoArg(data_text.clone())));
    }
    for (cname, ch) in &channels {
        let out = cli::run_env(&bin, &rule_text, ch, Some(&env))?;
        obs.evals += 1;
        compare(&out, &want, &format!("{}, data by {}, working directory holding a file named {:?}", profile, cname, name), &rule_text, &data_text)?;
    }
    obs.nt(if as_data { "data argument named like a file" } else { "rule argument named like a file" });
    Ok(())
}

fn fixed_file_decoys() -> Vec<Value> {
    let mut out = vec![];
    for (i, n) in DECOY_NAMES.iter().enumerate() {
        for as_data in [true, false] {
            out.push(json!({"name": n, "as_data": as_data, "release": (i % 2 == 0) == as_data}));
        }
    }
    out
}


// ------------------------------------------------------------------------------------------------ a terminal as standard output

/// What the command prints does not depend on where it prints it: with standard output on a pseudo-terminal (raw mode)
/// the bytes and the exit status are those of the run into a pipe.
fn check_tty(case: &Value, obs: &mut Obs) -> Result<(), String> {
    let rule_text = case["rule_text"].as_str().unwrap_or("");
    let data_text = case["data_text"].as_str().unwrap_or("");
    let profile = if case["release"].as_bool().unwrap_or(false) { "release" } else { "dev" };
    if is_option_syntax(rule_text) || rule_text.contains('\0') || is_option_syntax(data_text) || data_text.contains('\0') || data_text == "-" {
        obs.skip("U12");
        return Ok(());
    }
    let bin = match cli::bin(profile) {
        Some(b) => b,
        None => return Err("oracle_broken: CLI binary missing".into()),
    };
    let want = library(rule_text, data_text, obs)?;
    let piped = cli::run(&bin, rule_text, &Channel::Arg(data_text.to_string()))?;
    let tty = match cli::run_tty(&bin, rule_text, data_text)? {
        Some(t) => t,
        None => {
            obs.skip("no pseudo-terminal available");
            return Ok(());
        }
    };
    obs.evals += 2;
    if tty.timed_out {
        return Err(format!("the command did not finish with standard output on a terminal: rule text {:?}, data text {:?}", rule_text, data_text));
    }
    if tty.code != piped.code || tty.stdout != piped.stdout {
        return Err(format!(
            "the output depends on whether standard output is a terminal: exit {:?} stdout {:?} into a pipe, exit {:?} stdout {:?} on a pseudo-terminal ({} build): rule text {:?}, data text {:?}",
            piped.code,
            String::from_utf8_lossy(&piped.stdout).chars().take(200).collect::<String>(),
            tty.code,
            String::from_utf8_lossy(&tty.stdout).chars().take(200).collect::<String>(),
            profile,
            rule_text,
            data_text
        ));
    }
    compare(&tty, &want, &format!("{}, standard output on a pseudo-terminal", profile), rule_text, data_text)?;
    obs.nt(if want.ok { "value printed on a terminal" } else { "failure on a terminal" });
    Ok(())
}

pub fn property() -> Property {
    Property {
        id: "C18",
        subs: vec![
            Sub {
                name: "terminal",
                about: "the 40 corner text pairs and generated texts with the command's standard output attached to a pseudo-terminal (raw mode) instead of a pipe: exit status and bytes written must be identical to the piped run and agree with the library - no pretty-printing, colour or paging for interactive use. Skipped (and counted) if the system hands out no pseudo-terminal.",
                nontrivial: "every compared case.",
                strategy: Some(gen_texts),
                fixed: Some(fixed_texts),
                fixed_exhaustive: false,
                check: check_tty,
                quick: 300,
                thorough: 10_000,
                small_stack: false,
            },
            Sub {
                name: "file_decoys",
                about: "the arguments are texts, never file names: the command runs in a working directory that holds files named exactly like the argument (data.json, @data.json, rule.json, null, 1, x, nul, {, [1, true, ... - each containing a valid rule) and must still do what the library does with the argument as text, as data argument, as rule argument and with the same text on stdin.",
                nontrivial: "every case.",
                strategy: None,
                fixed: Some(fixed_file_decoys),
                fixed_exhaustive: true,
                check: check_file_decoys,
                quick: 0,
                thorough: 0,
                small_stack: false,
            },
            Sub {
                name: "corner_texts",
                about: "40 hand-picked (rule text, data text) pairs - leading minus signs, surrounding whitespace, empty texts, astral characters raw and as surrogate escapes, log rules, failing rules, number spellings (1e0, 1.0, beyond u64), duplicate keys, bare words, BOM, trailing commas, lone surrogate, option look-alikes inside strings, depth 127 and 129 - through dev and release binaries x three data channels against the in-process library.",
                nontrivial: "every case (classified: invalid text / evaluation error / log lines / leading minus / valid).",
                strategy: None,
                fixed: Some(fixed_texts),
                fixed_exhaustive: false,
                check: check_texts,
                quick: 0,
                thorough: 0,
                small_stack: false,
            },
            Sub {
                name: "texts",
                about: "generated rules (all operators, poison, 3% wrong arities, plain values, numbers) and data, each spelled as JSON text with seeded variations of whitespace, string escapes (\\uXXXX incl. surrogate pairs) and number spellings (1.0, 1e0, E+0), 1 in 9 texts damaged (truncation, trailing garbage, bare words, empty, NaN, depth 129, BOM, comment, trailing comma, lone surrogate, control character); data given as argument, on stdin without argument, on stdin with '-'. Oracle: the in-process library on serde_json::from_str of the same texts: on Ok(v) stdout = its log lines + v + newline and exit 0, identical for the three channels; on a parse or evaluation failure exit non-zero (never 101 / a signal) and stdout holds only the log lines written before the failure.",
                nontrivial: "as corner_texts.",
                strategy: Some(gen_texts),
                fixed: None,
                fixed_exhaustive: false,
                check: check_texts,
                quick: 6_000,
                thorough: 120_000,
                small_stack: false,
            },
            Sub {
                name: "chain",
                about: "two-stage pipelines: the stdout of `jsonlogic rule1` (data on stdin) is fed to `jsonlogic rule2` (stdin, with or without '-'); it must be valid JSON and the second stage must print apply(rule2, parse(stdout1)); intermediate values include astral characters, floats, integers beyond 2^63, nested containers.",
                nontrivial: "every chained case (classified by the intermediate value).",
                strategy: Some(gen_chain),
                fixed: None,
                fixed_exhaustive: false,
                check: check_chain,
                quick: 3_000,
                thorough: 60_000,
                small_stack: false,
            },
            Sub {
                name: "chunked_stdin",
                about: "the data text is written to stdin in two pieces (cut at a generated position) with a 60 ms pause, as a slow producer in a pipeline would: same oracle.",
                nontrivial: "every case.",
                strategy: Some(gen_chunked),
                fixed: None,
                fixed_exhaustive: false,
                check: check_chunked,
                quick: 320,
                thorough: 8_000,
                small_stack: false,
            },
        ],
        assumptions: vec![
            "U12: rule / data texts that are option syntax of the command (--, clusters of -h / -V, --help, --version, optionally with =...) and texts containing NUL (cannot be passed in argv) are excluded and counted; a lone '-' as data means stdin",
            "the in-process library evaluated on serde_json::from_str of the same texts is the reference (the harness is built with the same serde_json features as the CLI)",
            "non-UTF-8 argv and a closed stdout are outside the property",
        ],
    }
}
