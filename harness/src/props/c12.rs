//! C12 - missing / missing_some report exactly the keys that var cannot find.

use super::common::*;
use crate::gen::{self, rules};
use crate::model::{self, Res};
use crate::runner::{Obs, Property, Sub};
use proptest::collection::vec;
use proptest::prelude::*;
use proptest::sample::select;
use serde_json::{json, Map, Value};

const SENTINEL: &str = "§no-such-value§";

/// data whose members are often null / falsy / empty (present but "empty")
fn c12_data() -> gen::VS {
    let member = prop_oneof![
        2 => Just(Value::Null),
        1 => Just(json!(0)),
        1 => Just(json!("")),
        1 => Just(json!(false)),
        1 => Just(json!([])),
        1 => Just(json!({})),
        2 => gen::scalars(),
        2 => Just(json!({"b": null, "c": 0, "d": {"e": "deep"}})),
        1 => Just(json!({"b": {"d": 2, "b": null}, "c": 1})),
        1 => Just(json!([null, 0, "x", [1, 2]])),
        1 => Just(json!("héllo")),
    ];
    let obj = vec((select(vec!["a", "b", "c", "d", "0", "1", "a.b", "a.b", "é", "k", "", "x\\y"]), member.clone()), 0..=6).prop_map(|kv| {
        let mut m = Map::new();
        for (k, v) in kv {
            m.insert(k.to_string(), v);
        }
        Value::Object(m)
    });
    prop_oneof![6 => obj, 2 => vec(member, 0..=4).prop_map(Value::Array), 1 => Just(Value::Null), 1 => Just(json!("héllo"))].boxed()
}

fn key_values() -> gen::VS {
    prop_oneof![
        8 => select(vec!["", "a", "b", "c", "d", "0", "1", "a.b", "a\\.b", "é", "k", "zz", "a.b.c", "a\\.b.c", "a\\.b.d", "a.b.d", "a\\.b.b", "a.d.e", "a.c", "b.0", "b.3", "b.-1", "x\\\\y", "a.0", "nope", "2", "-1"]).prop_map(|s| json!(s)),
        2 => (-2i64..5).prop_map(gen::j),
        1 => Just(Value::Null),
        // what other path languages would find below these keys (a length, every element, a slice, a position): here
        // they are absent paths for var, and must be reported by missing exactly as var sees them
        2 => select(vec!["a.length", "b.length", "length", "a.*", "b.*", "*", "*.b", "a.*.b", "b.0:1", "b.1:", "a.#", "a[0]", "b[0]", "$index", "../a", "a.size", "a.first", "b.last", "a.b.length", "c.length"]).prop_map(|s| json!(s)),
    ]
    .boxed()
}

fn key_lists() -> BoxedStrategy<Vec<Value>> {
    // duplicates on purpose
    (vec(key_values(), 0..=5), prop_oneof![3 => Just(vec![]), 2 => vec(any::<u16>(), 1..=3)]).prop_map(|(mut keys, dups)| {
        for d in dups {
            if !keys.is_empty() {
                let k = keys[gen::pick(d, keys.len())].clone();
                keys.push(k);
            }
        }
        keys
    }).boxed()
}

/// model-free: key k is missing iff var with a sentinel default returns the sentinel
fn is_missing(k: &Value, data: &Value, obs: &mut Obs) -> Result<bool, String> {
    let rule = json!({"var": [k, SENTINEL]});
    match run(&rule, data, obs)? {
        Some(v) => Ok(v == json!(SENTINEL)),
        None => Err(format!("var failed on key {} (data {})", k, data)),
    }
}

fn classify(keys: &[Value], data: &Value, answer_nonempty: bool, obs: &mut Obs, what: &str) {
    let dup = (0..keys.len()).any(|i| (0..i).any(|j| keys[i] == keys[j]));
    let null_key = keys.iter().any(|k| k.is_null());
    let dotted = keys.iter().any(|k| k.as_str().map(|s| s.contains('.')).unwrap_or(false));
    let falsy_present = keys.iter().any(|k| {
        let (r, _) = model::eval(&json!({"var": [k]}), data);
        let (s, _) = model::eval(&json!({"var": [k, SENTINEL]}), data);
        matches!((r, s), (Res::Ok(v), Res::Ok(w)) if v == w && !model::coerce::truthy(&v) && !k.is_null())
    });
    if dup {
        obs.nt(&format!("{}: duplicate key", what));
    } else if falsy_present {
        obs.nt(&format!("{}: present key with null / falsy value", what));
    } else if null_key {
        obs.nt(&format!("{}: null key", what));
    } else if dotted {
        obs.nt(&format!("{}: dotted path", what));
    } else if answer_nonempty {
        obs.nt(&format!("{}: non-empty answer", what));
    } else {
        obs.class(&format!("{}: plain", what));
    }
}

fn check_missing(case: &Value, obs: &mut Obs) -> Result<(), String> {
    let keys: Vec<Value> = case["keys"].as_array().cloned().unwrap_or_default();
    let data = &case["data"];
    let form = case["form"].as_u64().unwrap_or(0);
    let rule = match form % 4 {
        0 => json!({"missing": keys}),
        1 => json!({"missing": [keys]}),                         // first operand is an array: it is the whole key list
        2 => json!({"missing": {"merge": [keys]}}),             // computed
        _ => {
            let mut v = vec![Value::Array(keys.clone())];
            v.push(json!("ignored-because-the-first-operand-is-an-array"));
            json!({"missing": v})
        }
    };
    let effective: Vec<Value> = if form % 4 == 0 && keys.first().map(|k| k.is_array()).unwrap_or(false) { vec![] } else { keys.clone() };
    let d = diff(&rule, data, obs, TraceMode::None)?;
    // model-free expectation
    let mut want: Vec<Value> = vec![];
    let mut dup_absent = false;
    for k in &effective {
        if k.is_null() {
            continue;
        }
        if is_missing(k, data, obs)? {
            if want.contains(k) {
                dup_absent = true;
            }
            want.push(k.clone());
        }
    }
    match &d.out {
        crate::imp::Out::Ok(Value::Array(got)) => {
            if dup_absent {
                obs.skip("U5");
                // still: the set of reported keys is exactly the set of missing keys, in first-occurrence order
                let mut dedup_got: Vec<Value> = vec![];
                for g in got {
                    if !dedup_got.contains(g) {
                        dedup_got.push(g.clone());
                    }
                }
                let mut dedup_want: Vec<Value> = vec![];
                for g in &want {
                    if !dedup_want.contains(g) {
                        dedup_want.push(g.clone());
                    }
                }
                if dedup_got != dedup_want {
                    return Err(format!("{} on {} reported {:?}; the keys var cannot find are {:?}", rule, data, got, dedup_want));
                }
            } else if got != &want {
                return Err(format!("{} on {} gave {} but the keys whose var lookup finds nothing are {} (in request order)", rule, data, Value::Array(got.clone()), Value::Array(want)));
            }
        }
        other => return Err(format!("missing did not return an array: {} on {} gave {}", rule, data, other.short())),
    }
    classify(&effective, data, !want.is_empty(), obs, "missing");
    Ok(())
}

fn gen_missing() -> BoxedStrategy<Value> {
    (key_lists(), c12_data(), 0u64..4).prop_map(|(keys, data, form)| json!({"keys": keys, "data": data, "form": form})).boxed()
}

fn check_missing_some(case: &Value, obs: &mut Obs) -> Result<(), String> {
    let keys: Vec<Value> = case["keys"].as_array().cloned().unwrap_or_default();
    let data = &case["data"];
    let n = case["n"].as_u64().unwrap_or(0);
    let computed = case["computed"].as_bool().unwrap_or(false);
    let rule = if computed { json!({"missing_some": [n, {"merge": [keys]}]}) } else { json!({"missing_some": [n, keys]}) };
    let d = diff(&rule, data, obs, TraceMode::None)?;
    // model-free bounds
    let mut distinct_present: Vec<Value> = vec![];
    let mut present_occurrences = 0u64;
    let mut nulls = 0u64;
    let mut distinct_absent: Vec<Value> = vec![];
    for k in &keys {
        if k.is_null() {
            nulls += 1;
            continue;
        }
        if is_missing(k, data, obs)? {
            if !distinct_absent.contains(k) {
                distinct_absent.push(k.clone());
            }
        } else {
            present_occurrences += 1;
            if !distinct_present.contains(k) {
                distinct_present.push(k.clone());
            }
        }
    }
    let got = match &d.out {
        crate::imp::Out::Ok(Value::Array(got)) => got.clone(),
        other => return Err(format!("missing_some did not return an array: {} on {} gave {}", rule, data, other.short())),
    };
    let lo = distinct_present.len() as u64;
    let hi = present_occurrences + nulls;
    if n <= lo {
        if !got.is_empty() {
            return Err(format!("{} on {}: {} distinct keys are present (threshold {}), the answer must be [] but is {:?}", rule, data, lo, n, got));
        }
    } else if n > hi {
        if got != distinct_absent {
            return Err(format!("{} on {}: only {} listed keys are present (threshold {}), the answer must be the distinct missing keys {:?} but is {:?}", rule, data, present_occurrences, n, distinct_absent, got));
        }
    } else {
        obs.skip("U5");
        if !got.is_empty() && got != distinct_absent {
            return Err(format!("{} on {}: the answer {:?} is neither [] nor the distinct missing keys {:?}", rule, data, got, distinct_absent));
        }
    }
    // an absent key is never counted as present, however many times it is listed
    if distinct_present.is_empty() && nulls == 0 && n >= 1 && !distinct_absent.is_empty() && got.is_empty() {
        return Err(format!("{} on {}: no listed key is present yet the threshold {} was considered met", rule, data, n));
    }
    let dup_absent = keys.iter().filter(|k| distinct_absent.contains(k)).count() > distinct_absent.len();
    if dup_absent && n > hi {
        obs.nt("missing_some: repeated absent key, threshold not met");
    } else {
        classify(&keys, data, !got.is_empty(), obs, "missing_some");
    }
    Ok(())
}

fn gen_missing_some() -> BoxedStrategy<Value> {
    (key_lists(), c12_data(), any::<u16>(), any::<bool>())
        .prop_map(|(keys, data, t, computed)| {
            let n = gen::pick(t, keys.len() + 2) as u64; // thresholds 0..n+1
            json!({"keys": keys, "data": data, "n": n, "computed": computed})
        })
        .boxed()
}

fn fixed_small_model() -> Vec<Value> {
    // every key list of length <= 4 over {a (present), b (present, null), z (absent), y (absent), null} x thresholds 0..n+1
    let alphabet = [json!("a"), json!("b"), json!("z"), json!("y"), Value::Null];
    let data = json!({"a": 1, "b": null});
    let mut lists: Vec<Vec<Value>> = vec![vec![]];
    let mut frontier: Vec<Vec<Value>> = vec![vec![]];
    for _ in 0..4 {
        let mut next = vec![];
        for l in &frontier {
            for s in &alphabet {
                let mut m = l.clone();
                m.push(s.clone());
                next.push(m);
            }
        }
        lists.extend(next.iter().cloned());
        frontier = next;
    }
    let mut out = vec![];
    for l in lists {
        for n in 0..=(l.len() as u64 + 1) {
            out.push(json!({"keys": l, "data": data, "n": n, "computed": n % 2 == 1}));
        }
    }
    out
}

fn check_rules(case: &Value, obs: &mut Obs) -> Result<(), String> {
    let d = diff(rule_of(case), data_of(case), obs, TraceMode::Multiset)?;
    if matches!(d.model, Res::Ok(_)) {
        obs.nt("missing / missing_some inside a larger rule");
    }
    Ok(())
}

fn gen_rules() -> BoxedStrategy<Value> {
    let cfg = rules::Cfg::new(&["missing", "missing_some", "missing", "missing_some", "if", "merge", "var", "cat", "map", "filter"]).keys(&["a", "b", "c", "d", "0", "1", "a.b", "k", "zz"]).poison(0).bad_arity(10);
    gen::case2(rules::rooted(cfg), c12_data())
}


/// accumulated state: see common::sweep
fn sweep_item(kind: u64, k: usize) -> (Value, Value) {
    match kind % 2 {
        0 => (json!({"missing": [format!("k{}", k), format!("k{}.v", k), "zz"]}), json!({format!("k{}", k): {"v": null}})),
        _ => (json!({"missing_some": [2, [format!("p{}", k), format!("q{}", k), "a"]]}), json!({"a": 0, format!("q{}", k + (k % 2)): 1})),
    }
}

fn check_state_sweep(case: &Value, obs: &mut Obs) -> Result<(), String> {
    let w = case["w"].as_u64().unwrap_or(1) as usize;
    let kind = case["kind"].as_u64().unwrap_or(0);
    sweep(w, &|k| sweep_item(kind, k), obs)?;
    obs.nt(&format!("sweep kind {} W {}", kind, if w < 64 { "<64" } else if w < 128 { "64-127" } else { "128+" }));
    Ok(())
}

fn fixed_state_sweeps() -> Vec<Value> {
    sweep_cases(2, 300)
}


fn gen_per_element() -> BoxedStrategy<Value> {
    let cfg = rules::Cfg::new(&["missing", "missing_some", "missing", "missing_some", "if", "merge", "var", "cat", "+"]).keys(&["a", "b", "c", "d", "0", "1", "a.b", "k", "zz"]).poison(0).bad_arity(0);
    per_element_cases(rules::rooted(cfg), c12_data())
}


const KINDS: u64 = 4;
fn check_sizes(case: &Value, obs: &mut Obs) -> Result<(), String> {
    let n = case["n"].as_u64().unwrap_or(1) as usize;
    let k = case["k"].as_u64().unwrap_or(0);
    let keys: Vec<Value> = (0..n).map(|i| json!(format!("k{}", i))).collect();
    let data = json!({format!("k{}", n - 1): 1});
    let (rule, data) = match k {
        0 => (json!({"missing": keys}), data),
        // a computed key list.  The implementation clones the whole data document at every lookup, so n lookups
        // against a document that itself holds the n keys cost n^2 (65535 keys: minutes) - slow, not a hang, and not
        // what this case is about: the big list comes from a literal through merge, from the data only up to 257 keys
        1 if n > 300 => (json!({"missing": [{"merge": [keys]}]}), data),
        1 => (json!({"missing": [{"var": "ks"}]}), json!({format!("k{}", n - 1): 1, "ks": keys})),
        // missing_some removes duplicates with a linear search (n absent keys: n^2 comparisons) and every lookup clones
        // the document (n present keys need an n-key document: n^2 again) - slow, not wrong, and not what these cases
        // are about: the 2^16 sizes use a list of null keys (ignored) with one present and one absent key at the end
        2 if n > 5000 => {
            let mut ks: Vec<Value> = vec![Value::Null; n - 2];
            ks.push(json!("absent"));
            ks.push(json!("p"));
            (json!({"missing_some": [1, ks]}), json!({"p": 1}))
        }
        2 => (json!({"missing_some": [1, keys]}), data),
        _ if n > 5000 => {
            let mut ks: Vec<Value> = vec![Value::Null; n - 2];
            ks.push(json!("p"));
            ks.push(json!("absent"));
            (json!({"missing_some": [1, {"merge": [ks]}]}), json!({"p": 1}))
        }
        _ => (json!({"missing_some": [2, keys]}), data),
    };
    size_case(&rule, &data, obs, &format!("size kind {} n {}", k, if n < 1000 { "~2^8" } else if n < 10000 { "~2^12" } else { "~2^16" }))
}

fn fixed_sizes() -> Vec<Value> {
    let mut out = vec![];
    for n in SIZE_EDGES {
        for k in 0..KINDS {
            out.push(json!({"n": n, "k": k}));
        }
    }
    out
}

pub fn property() -> Property {
    Property {
        id: "C12",
        subs: vec![
            Sub {
                name: "size_boundaries",
                about: "key lists of exactly 255 ... 65537 keys of which only the last is present: missing (literal list and computed list) must return all the others in order, missing_some with threshold 1 the empty list and with threshold 2 all the others, against the reference model.",
                nontrivial: "every case.",
                strategy: None,
                fixed: Some(fixed_sizes),
                fixed_exhaustive: true,
                check: check_sizes,
                quick: 0,
                thorough: 0,
                small_stack: false,
            },
            Sub {
                name: "fuzz_corpus_replay",
                about: "every committed corpus input and saved artifact of the libFuzzer target fz_missing - one application of missing / missing_some (data document, keys) whose operands are written by the fuzzer as text lines (a line that parses as JSON is that value, any other line is a raw string such as ` 0x1F ` or `12px`; operands literal or through var) - replayed through the target's own body against the reference model; the committed corpus is the coverage-distinct set distilled from campaigns on the unchanged tree, so each input reaches a different piece of the implementation. The thorough tier additionally runs the coverage-guided campaign.",
                nontrivial: "the decoded rule is evaluated and the model determines the outcome.",
                strategy: None,
                fixed: Some(|| fuzz_corpus_cases("fz_missing")),
                fixed_exhaustive: false,
                check: check_fuzz_case,
                quick: 0,
                thorough: 0,
                small_stack: false,
            },
            Sub {
                name: "per_element",
                about: "this property's operators inside an expression used as the body of map / filter / all / some / none over 2-5 different elements: element by element the outcome must be what the expression gives on that element alone (model-free per-element law); catches anything the shared evaluation machinery remembers from one element to the next.",
                nontrivial: "the expression gives different results on different elements.",
                strategy: Some(gen_per_element),
                fixed: None,
                fixed_exhaustive: false,
                check: per_element_law,
                quick: 40_000,
                thorough: 2_000_000,
                small_stack: false,
            },
            Sub {
                name: "state_sweep",
                about: "accumulated state: for every W in 1..300 and each kind of keyed work of this operator family (distinct key lists for missing and missing_some), W hot items are evaluated twice, then a new item, the hot set again, another new item, and everything in reverse; every call against the reference model - a cache, pool or table with any capacity up to 300 is driven exactly over its boundary.",
                nontrivial: "every case.",
                strategy: None,
                fixed: Some(fixed_state_sweeps),
                fixed_exhaustive: false,
                check: check_state_sweep,
                quick: 0,
                thorough: 0,
                small_stack: false,
            },
            Sub {
                name: "missing",
                about: "generated key lists (duplicates, dotted and escaped paths, integer and null keys; literal, first-operand-array, computed with merge, first-operand-array with surplus operands) over data whose members are often null / falsy / empty; model-free oracle: k is missing iff {\"var\":[k,S]} returns the sentinel S; the answer must be those keys in request order; plus the model.",
                nontrivial: "duplicate key, null key, present key with a null / falsy value, dotted path, or a non-empty answer.",
                strategy: Some(gen_missing),
                fixed: None,
                fixed_exhaustive: false,
                check: check_missing,
                quick: 150_000,
                thorough: 8_000_000,
                small_stack: false,
            },
            Sub {
                name: "missing_some",
                about: "the same key lists with every threshold 0..n+1, literal and computed: [] when the threshold is at most the number of distinct present keys, the distinct missing keys in first-occurrence order when it exceeds present occurrences + null keys (U5 in between), never met when no listed key is present.",
                nontrivial: "as missing, plus a repeated absent key with the threshold not met.",
                strategy: Some(gen_missing_some),
                fixed: None,
                fixed_exhaustive: false,
                check: check_missing_some,
                quick: 150_000,
                thorough: 8_000_000,
                small_stack: false,
            },
            Sub {
                name: "missing_some_small_model",
                about: "every key list of length <= 4 over {present, present-with-null, absent, absent2, null key} x every threshold 0..n+1 (enumerated completely).",
                nontrivial: "as missing_some.",
                strategy: None,
                fixed: Some(fixed_small_model),
                fixed_exhaustive: true,
                check: check_missing_some,
                quick: 0,
                thorough: 0,
                small_stack: false,
            },
            Sub {
                name: "rules_model",
                about: "missing / missing_some nested in if / merge / cat / var against the model.",
                nontrivial: "the model determines the result.",
                strategy: Some(gen_rules),
                fixed: None,
                fixed_exhaustive: false,
                check: check_rules,
                quick: 60_000,
                thorough: 3_000_000,
                small_stack: false,
            },
        ],
        assumptions: vec!["U5: missing with a repeated absent key may report it once or twice; missing_some between the two counting conventions is not determined", "U3: keys that are not string / integer / null", "U2: odd path spellings"],
    }
}
