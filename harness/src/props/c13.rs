//! C13 - map, filter and reduce: standard higher-order semantics and scoping.

use super::common::*;
use crate::gen::{self, rules};
use crate::model::{self, coerce, Res};
use crate::runner::{Obs, Property, Sub};
use proptest::collection::vec;
use proptest::prelude::*;
use proptest::sample::select;
use serde_json::{json, Value};

/// element expressions: identity, field access, arithmetic, order-sensitive, scope probes, nested HOFs
fn element_exprs() -> gen::VS {
    prop_oneof![
        3 => Just(json!({"var": ""})),
        2 => Just(json!({"var": "a"})),
        1 => Just(json!({"var": "outer"})),            // must be invisible inside map / filter / reduce
        1 => Just(json!({"var": ["outer", "no-outer"]})),
        // the ways other implementations let an expression reach out of the element scope, or at the position: all of
        // them are plain absent paths here
        1 => select(vec!["../outer", "../../outer", "$root.outer", "$.outer", "$parent.outer", "@root.outer", "data.outer", "context.outer", "index", "$index", "@index", "key", "$key", "this", "$this", "item", "it"]).prop_map(|p| json!({"var": [p, "no-such-scope"]})),
        1 => Just(json!({"missing": ["a", "outer"]})),
        1 => Just(json!({"missing_some": [1, ["outer", "b"]]})),
        1 => Just(json!({"*": [{"var": ""}, 2]})),
        1 => Just(json!({"cat": ["<", {"var": ""}, ">"]})),
        1 => Just(json!({">": [{"var": ""}, 1]})),
        1 => Just(json!({"!!": [{"var": ""}]})),
        // predicates that tell a scalar from the string that spells it
        1 => select(vec![json!(1), json!("1"), Value::Null, json!("null"), json!(true), json!("true"), json!(0), json!("0"), json!(1.5), json!("1.5")]).prop_map(|x| json!({"===": [{"var": ""}, x]})),
        1 => select(vec![json!(1), json!("1"), json!(0), json!("")]).prop_map(|x| json!({"!==": [x, {"var": ""}]})),
        1 => Just(json!({"map": [{"var": ""}, {"var": ""}]})),
        1 => Just(json!({"filter": [{"var": ""}, {"var": ""}]})),
        1 => Just(json!({"reduce": [{"var": ""}, {"cat": [{"var": "accumulator"}, {"var": "current"}]}, "|"]})),
        1 => Just(json!({"log": [{"var": ""}]})),
        1 => Just(json!({"var": "0"})),
        // keys that need var's path rules: backslash escapes with and without a dot, dotted paths
        1 => select(vec!["a\\b", "qty\\", "a\\.b", "x.y", "ab", "a.b"]).prop_map(|k| json!({"var": k})),
        1 => Just(json!({"merge": [{"var": ""}, "x"]})),
        // keys computed from the element itself, differently for each element
        1 => Just(json!({"var": {"var": "pick"}})),
        1 => Just(json!({"var": [{"var": "pick"}, "no-pick"]})),
        1 => Just(json!({"var": {"cat": ["v_", {"var": "pick"}]}})),
        1 => Just(json!({"missing": [{"var": "pick"}, "a"]})),
        1 => Just(json!({"missing": {"merge": ["a", {"if": [{"var": "b"}, ["v_a"], []]}]}})),
        1 => Just(json!({"missing_some": [{"+": [{"var": "a"}, 0]}, ["b", "v_a", "zz"]]})),
        // decisions that depend on the element only through missing / missing_some
        1 => Just(json!({"if": [{"missing": ["a"]}, "incomplete", "ok"]})),
        1 => Just(json!({"and": [{"missing": ["a"]}, true]})),
        1 => Just(json!({"or": [{"missing_some": [1, ["a", "b"]]}, "none-missing"]})),
        1 => gen::scalars(),
        1 => Just(json!([])),
        1 => Just(json!({"if": [{"var": ""}, "T", "F"]})),
        1 => Just(json!({"+": ["x"]})),
    ]
    .boxed()
}

fn reduce_exprs() -> gen::VS {
    prop_oneof![
        3 => Just(json!({"cat": [{"var": "accumulator"}, {"var": "current"}]})),       // non-commutative: spells the order
        2 => Just(json!({"+": [{"var": "current"}, {"var": "accumulator"}]})),
        2 => Just(json!({"var": ""})),                                                   // the scope itself
        1 => Just(json!({"var": "current"})),
        1 => Just(json!({"var": "accumulator"})),
        1 => Just(json!({"merge": [{"var": "accumulator"}, [{"var": "current"}]]})),
        1 => Just(json!({"var": "outer"})),
        1 => select(vec!["../outer", "$root.outer", "$.outer", "index", "$index", "acc", "cur", "value", "result", "initial", "previous", "total", "a", "b", "accumulator.outer", "current.outer"]).prop_map(|p| json!({"var": [p, "no-such-name"]})),
        1 => Just(json!({"missing": ["current", "accumulator", "outer"]})),
        1 => Just(json!({"cat": [{"var": "current"}, {"var": "accumulator"}]})),
        1 => Just(json!({"-": [{"var": "accumulator"}, {"var": "current"}]})),
        1 => Just(json!({"log": [{"var": "current"}]})),
        1 => Just(json!({"reduce": [{"var": "current"}, {"cat": [{"var": "accumulator"}, {"var": "current"}]}, {"var": "accumulator"}]})),
        1 => Just(json!({"if": [{"var": "current"}, {"var": "current"}, {"var": "accumulator"}]})),
        1 => gen::scalars(),
    ]
    .boxed()
}

/// scalars together with the strings that spell them (and other twin spellings)
pub fn twin_scalars() -> gen::VS {
    select(vec![json!(1), json!("1"), json!(1.0), json!(0), json!("0"), json!(""), Value::Null, json!("null"), json!(true), json!("true"), json!(false), json!("false"), json!(1.5), json!("1.5"), gen::f(-0.0), json!("-0"), json!(2), json!("2")]).boxed()
}

fn elements() -> gen::VS {
    prop_oneof![
        3 => twin_scalars(),
        4 => gen::scalars(),
        2 => gen::small_ints(),
        2 => Just(json!({"a": 1, "b": 2})),
        1 => Just(json!({"a": null})),
        1 => Just(json!({"b": 2, "outer": "shadow"})),
        1 => Just(json!({"ab": 1, "a\\b": 2, "a.b": 3, "a": {"b": 4}, "qty": 5, "qty\\": 6, "x": {"y": 7}})),
        1 => Just(json!({"ab": 3})),
        2 => select(vec![json!({"pick": "a", "a": 1, "b": 2, "v_a": 0, "v_b": 1}), json!({"pick": "b", "a": 3, "b": 4, "v_a": 0, "v_b": 1}), json!({"pick": "v_a", "v_a": "x"}), json!({"pick": "zz"}), json!({"b": 2}), json!({})]),
        2 => vec(gen::small_ints(), 0..=3).prop_map(Value::Array),
        1 => Just(json!([[1, 2], [3]])),
        1 => gen::op_shaped(),
        1 => gen::texts(3).prop_map(gen::j),
    ]
    .boxed()
}

/// (collection expression, data) such that the collection is literal / computed / null / not an array
fn collections() -> BoxedStrategy<(Value, Value, &'static str)> {
    let outer = |xs: Value| json!({"xs": xs, "outer": "OUTER", "a": "outer-a", "current": "outer-current", "accumulator": "outer-acc", "n": null, "s": "str"});
    prop_oneof![
        4 => vec(elements(), 0..=5).prop_map(move |e| (Value::Array(e.clone()), outer(Value::Array(e)), "literal")),
        4 => vec(elements(), 0..=5).prop_map(move |e| (json!({"var": "xs"}), outer(Value::Array(e)), "var")),
        2 => vec(elements(), 0..=4).prop_map(move |e| (json!({"merge": [{"var": "xs"}, []]}), outer(Value::Array(e)), "merge")),
        1 => vec(elements(), 0..=4).prop_map(move |e| (json!({"filter": [{"var": "xs"}, true]}), outer(Value::Array(e)), "nested filter")),
        1 => vec(elements(), 0..=4).prop_map(move |e| (json!({"map": [{"var": "xs"}, {"var": ""}]}), outer(Value::Array(e)), "nested map")),
        1 => Just((Value::Null, outer(json!([])), "null literal")),
        1 => Just((json!({"var": "n"}), outer(json!([])), "null computed")),
        1 => Just((json!({"var": "nope"}), outer(json!([])), "absent -> null")),
        1 => prop_oneof![Just(json!("str")), Just(json!(5)), Just(json!(true)), Just(json!({"a": 1, "b": 2})), Just(json!({"var": "s"})), Just(json!({"var": "outer"})), Just(json!({"var": ""}))].prop_map(move |c| (c, outer(json!([1])), "not an array")),
    ]
    .boxed()
}

fn check_hof(case: &Value, obs: &mut Obs) -> Result<(), String> {
    let op = case["op"].as_str().unwrap_or("map");
    let (coll, expr, init, data) = (&case["coll"], &case["expr"], &case["init"], &case["data"]);
    let kind = case["kind"].as_str().unwrap_or("");
    let rule = if op == "reduce" { json!({"reduce": [coll, expr, init]}) } else { op2(op, coll, expr) };
    let d = diff(&rule, data, obs, TraceMode::Multiset)?;
    // what the collection evaluates to (model-free: ask the implementation)
    let coll_value = run(coll, data, obs)?;
    let items: Option<Vec<Value>> = match &coll_value {
        Some(Value::Array(a)) => Some(a.clone()),
        Some(Value::Null) => Some(vec![]),
        _ => None,
    };
    let out_ok = match &d.out {
        crate::imp::Out::Ok(v) => Some(v.clone()),
        _ => None,
    };
    match (&items, op) {
        (None, _) => {
            if coll_value.is_some() {
                if let Some(v) = &out_ok {
                    return Err(format!("{} over a collection that is neither an array nor null must be an error, got {}: {} on {}", op, v, rule, data));
                }
            }
        }
        (Some(items), "map") => {
            if let Some(Value::Array(res)) = &out_ok {
                if res.len() != items.len() {
                    return Err(format!("map changed the length: {} elements in, {} out: {} on {}", items.len(), res.len(), rule, data));
                }
                for (e, r) in items.iter().zip(res.iter()) {
                    // each output is the expression evaluated with the element as the entire data
                    if let Some(single) = run(expr, e, obs)? {
                        if !model::identical(&single, r) {
                            return Err(format!("map element {} should map to {} (the expression on the element alone) but gave {}: {} on {}", e, single, r, rule, data));
                        }
                    }
                }
            } else if out_ok.is_some() {
                return Err(format!("map did not return an array: {} on {}", rule, data));
            }
        }
        (Some(items), "filter") => {
            if let Some(Value::Array(res)) = &out_ok {
                // subsequence with identical elements, decided by the truthiness of the expression on the element alone
                let mut want = vec![];
                let mut decidable = true;
                for e in items {
                    match run(expr, e, obs)? {
                        Some(v) => {
                            if coerce::truthy(&v) {
                                want.push(e.clone());
                            }
                        }
                        None => decidable = false,
                    }
                }
                if decidable && !(want.len() == res.len() && want.iter().zip(res.iter()).all(|(a, b)| model::identical(a, b))) {
                    return Err(format!("filter must keep exactly the elements whose expression is truthy, unchanged and in order: expected {} got {}: {} on {}", Value::Array(want), Value::Array(res.clone()), rule, data));
                }
            } else if out_ok.is_some() {
                return Err(format!("filter did not return an array: {} on {}", rule, data));
            }
        }
        (Some(items), _) => {
            // reduce: left fold from the evaluated initial value with data exactly {current, accumulator}
            if let Some(mut acc) = run(init, data, obs)? {
                let mut decidable = true;
                for e in items {
                    match run(expr, &json!({"current": e, "accumulator": acc}), obs)? {
                        Some(v) => acc = v,
                        None => {
                            decidable = false;
                            break;
                        }
                    }
                }
                if decidable {
                    match &out_ok {
                        Some(v) if model::identical(v, &acc) => {}
                        other => return Err(format!("reduce must fold left to right from the evaluated initial value over {{current, accumulator}}: expected {} got {:?}: {} on {}", acc, other.as_ref().map(|v| v.to_string()), rule, data)),
                    }
                }
            }
        }
    }
    // classes
    let n = items.as_ref().map(|i| i.len()).unwrap_or(0);
    let text = expr.to_string();
    let scope_probe = text.contains("outer") || (op == "reduce" && text.contains("\"var\":\"\""));
    let nested = ["\"map\"", "\"filter\"", "\"reduce\""].iter().any(|k| text.contains(k)) || kind.starts_with("nested");
    if !matches!(d.model, Res::Ok(_) | Res::Err) {
        obs.class(&format!("{}: unspecified", op));
    } else if items.is_none() {
        obs.nt(&format!("{}: collection is not an array (error)", op));
    } else if kind.contains("null") || kind.contains("absent") {
        obs.nt(&format!("{}: null collection", op));
    } else if scope_probe {
        obs.nt(&format!("{}: scope probe", op));
    } else if nested {
        obs.nt(&format!("{}: nested higher-order", op));
    } else if n >= 2 && (op == "reduce" || op == "filter" || text.contains("var")) {
        obs.nt(&format!("{}: length >= 2, order visible ({})", op, kind));
    } else if n == 0 {
        obs.nt(&format!("{}: empty collection", op));
    } else {
        obs.class(&format!("{}: short / constant", op));
    }
    Ok(())
}

/// arithmetic folds over integers near 2^53 / 2^63: every step goes through the double-valued operator
fn gen_big_sums() -> BoxedStrategy<Value> {
    let big = || prop_oneof![3 => select(gen::INT_EXTREMES.to_vec()).prop_map(gen::j), 1 => select(gen::UINT_EXTREMES.to_vec()).prop_map(gen::j), 2 => (-3i64..4).prop_map(gen::j), 1 => Just(json!(9007199254740992i64)), 1 => Just(json!(1))];
    let reducer = select(vec![
        json!({"+": [{"var": "current"}, {"var": "accumulator"}]}),
        json!({"+": [{"var": "accumulator"}, {"var": "current"}]}),
        json!({"*": [{"var": "current"}, {"var": "accumulator"}]}),
        json!({"-": [{"var": "accumulator"}, {"var": "current"}]}),
        json!({"max": [{"var": "current"}, {"var": "accumulator"}]}),
        json!({"+": [{"var": "current"}, {"var": "accumulator"}, 0]}),
    ]);
    (vec(big(), 1..=5), reducer, big(), any::<bool>()).prop_map(|(xs, r, init, literal)| {
        let data = json!({"xs": xs, "outer": "OUTER"});
        let coll = if literal { Value::Array(xs) } else { json!({"var": "xs"}) };
        json!({"op": "reduce", "coll": coll, "expr": r, "init": init, "data": data, "kind": "big integers"})
    }).boxed()
}

/// collections far longer than any small-size fast path (64, 256 ... elements) drawn from a few twin scalars
fn gen_long_collections() -> BoxedStrategy<Value> {
    let pred = prop_oneof![
        2 => Just(json!({"var": ""})),
        2 => select(vec![json!(1), json!("1"), json!(0), json!("0"), Value::Null, json!("null")]).prop_map(|x| json!({"===": [{"var": ""}, x]})),
        1 => Just(json!({"!": [{"var": ""}]})),
        1 => Just(json!({"cat": ["<", {"var": ""}, ">"]})),
        1 => Just(json!({"+": [{"var": ""}, 1]})),
    ];
    let red = select(vec![json!({"cat": [{"var": "accumulator"}, {"var": "current"}, ";"]}), json!({"+": [{"var": "accumulator"}, {"if": [{"===": [{"var": "current"}, 1]}, 1, 0]}]}), json!({"merge": [{"var": "accumulator"}, [{"var": "current"}]]})]);
    (select(vec!["map", "filter", "reduce"]), vec(twin_scalars(), 2..=6), select(vec![63usize, 64, 65, 70, 100, 127, 128, 129, 255, 256, 257, 300]), pred, red, any::<bool>())
        .prop_map(|(op, pool, n, p, r, literal)| {
            let xs: Vec<Value> = (0..n).map(|i| pool[(i * 7 + i / 3) % pool.len()].clone()).collect();
            let data = json!({"xs": xs, "outer": "OUTER"});
            let coll = if literal { Value::Array(xs) } else { json!({"var": "xs"}) };
            json!({"op": op, "coll": coll, "expr": if op == "reduce" { r.clone() } else { p }, "init": if op == "reduce" { if r.get("+").is_some() { json!(0) } else if r.get("merge").is_some() { json!([]) } else { json!("") } } else { Value::Null }, "data": data, "kind": "long collection"})
        })
        .boxed()
}

fn gen_hof() -> BoxedStrategy<Value> {
    (select(vec!["map", "filter", "reduce", "reduce"]), collections(), element_exprs(), reduce_exprs(), prop_oneof![2 => gen::scalars(), 1 => Just(json!({"var": "outer"})), 1 => Just(json!({"cat": ["i", "n"]})), 1 => Just(json!([])), 1 => Just(json!({"var": "xs"}))])
        .prop_map(|(op, (coll, data, kind), e, re, init)| json!({"op": op, "coll": coll, "expr": if op == "reduce" { re } else { e }, "init": init, "data": data, "kind": kind}))
        .boxed()
}

fn check_rules(case: &Value, obs: &mut Obs) -> Result<(), String> {
    let d = diff(rule_of(case), data_of(case), obs, TraceMode::Multiset)?;
    if matches!(d.model, Res::Ok(_)) {
        obs.nt("generated higher-order rule");
    }
    Ok(())
}

fn gen_rules() -> BoxedStrategy<Value> {
    let cfg = rules::Cfg::new(&["map", "filter", "reduce", "map", "filter", "reduce", "var", "cat", "+", "merge", ">", "if", "missing"]).keys(&["", "a", "b", "xs", "current", "accumulator", "0", "outer"]).vars(8).poison(1).bad_arity(10);
    gen::case2(rules::rooted(cfg), gen::data_docs())
}


const KINDS: u64 = 4;
fn check_sizes(case: &Value, obs: &mut Obs) -> Result<(), String> {
    let n = case["n"].as_u64().unwrap_or(1) as usize;
    let k = case["k"].as_u64().unwrap_or(0);
    let data = json!({"xs": sized_array(n)});
    let xs = json!({"var": "xs"});
    let rule = match k {
        0 => json!({"map": [xs, {"var": ""}]}),
        1 => json!({"filter": [xs, {"var": ""}]}),
        2 => json!({"reduce": [xs, {"var": "current"}, 0]}),
        // map over filter: twice the work, so only up to 4097 elements (the model's step budget)
        _ if n < 5000 => json!({"map": [{"filter": [xs, {"var": ""}]}, {"var": ""}]}),
        _ => json!({"filter": [{"map": [xs, {"var": ""}]}, false]}),
    };
    size_case(&rule, &data, obs, &format!("size kind {} n {}", k, if n < 1000 { "~2^8" } else if n < 10000 { "~2^12" } else { "~2^16" }))
}

fn fixed_sizes() -> Vec<Value> {
    let mut out = vec![];
    for n in SIZE_EDGES {
        for k in 0..KINDS {
            out.push(json!({"n": n, "k": k}));
        }
    }
    out
}

pub fn property() -> Property {
    Property {
        id: "C13",
        subs: vec![
            Sub {
                name: "size_boundaries",
                about: "collections of exactly 255 ... 65537 elements through map (same length, order), filter (zeros removed), reduce (last element wins) and map over filter, against the reference model.",
                nontrivial: "every case.",
                strategy: None,
                fixed: Some(fixed_sizes),
                fixed_exhaustive: true,
                check: check_sizes,
                quick: 0,
                thorough: 0,
                small_stack: false,
            },
            Sub {
                name: "hof_laws",
                about: "map / filter / reduce over collections that are literal, computed (var, merge, nested filter / map), null (literal, computed, absent) or not arrays, with element expressions (identity, field access, arithmetic, the non-commutative cat of accumulator and current, nested higher-order operators, probes for outer names incl. missing / missing_some, {\"var\":\"\"} inside reduce) and outer data holding keys named a / current / accumulator / outer that must stay invisible; oracle = the model plus model-free laws: map output i is the expression on element i alone, filter keeps exactly the truthy elements unchanged in order, reduce equals the explicit left fold over {current, accumulator} from the evaluated initial value, non-array non-null collections are errors.",
                nontrivial: "length >= 2 with a visible order, a scope probe, a nested higher-order operator, a null or empty collection, or a non-array collection.",
                strategy: Some(gen_hof),
                fixed: None,
                fixed_exhaustive: false,
                check: check_hof,
                quick: 200_000,
                thorough: 10_000_000,
                small_stack: false,
            },
            Sub {
                name: "long_collections",
                about: "map / filter / reduce over collections of 63-300 elements cycling through 2-6 twin scalars (1 / \"1\" / 1.0, 0 / \"0\" / \"\", null / \"null\", true / \"true\" ...), literal and computed, with identity, strict-equality, negation, cat and arithmetic expressions: model and the element-by-element laws - no size threshold, no per-element shortcut keyed on a string form.",
                nontrivial: "every case.",
                strategy: Some(gen_long_collections),
                fixed: None,
                fixed_exhaustive: false,
                check: check_hof,
                quick: 3_000,
                thorough: 150_000,
                small_stack: false,
            },
            Sub {
                name: "big_integer_folds",
                about: "reduce with + * - max reducers (both operand orders) over 1-5 integers near 2^53, 2^63, 2^64 with an integer initial value, literal and computed collections: model plus the explicit step-by-step fold through the operator (every partial result is a double).",
                nontrivial: "every case.",
                strategy: Some(gen_big_sums),
                fixed: None,
                fixed_exhaustive: false,
                check: check_hof,
                quick: 30_000,
                thorough: 1_500_000,
                small_stack: false,
            },
            Sub {
                name: "rules_model",
                about: "generated nested rules over map filter reduce var cat + merge > if missing against the model (value and log multiset).",
                nontrivial: "the model determines a value.",
                strategy: Some(gen_rules),
                fixed: None,
                fixed_exhaustive: false,
                check: check_rules,
                quick: 100_000,
                thorough: 5_000_000,
                small_stack: false,
            },
        ],
        assumptions: vec!["U7: a never-applied, statically malformed element expression over an empty collection", "U13: log order of collection vs initial value"],
    }
}
