//! C07 - `==` / `!=` are ECMAScript abstract equality.

use super::common::*;
use crate::corpus;
use crate::gen::{self, rules};
use crate::model::coerce::{self, Tri};
use crate::runner::{Obs, Property, Sub};
use proptest::prelude::*;
use serde_json::{json, Value};

fn bool_of(v: Option<Value>) -> Option<bool> {
    v.and_then(|x| x.as_bool())
}

/// All the ways the implementation can be asked `a == b`; each must equal `want` (when Some) and each other.
pub fn eq_all_routes(a: &Value, b: &Value, want: Option<bool>, obs: &mut Obs) -> Result<bool, String> {
    let data = json!({"a": a, "b": b});
    let via_var = op2("==", &json!({"var": "a"}), &json!({"var": "b"}));
    let got = bool_of(run(&via_var, &data, obs)?).ok_or_else(|| format!("== did not return a boolean for operands {} and {} (via var)", a, b))?;
    if let Some(w) = want {
        if got != w {
            return Err(format!("{} == {} should be {} (ECMAScript), got {} (operands via var)", a, b, w, got));
        }
    }
    // literal operands, unless an operand would itself be parsed as an operation
    let literal_ok = crate::model::eval::as_operation(a).is_none() && crate::model::eval::as_operation(b).is_none();
    if literal_ok {
        let lit = bool_of(run(&op2("==", a, b), &Value::Null, obs)?);
        if lit != Some(got) {
            return Err(format!("{} == {} gives {:?} with literal operands but {} through var", a, b, lit, got));
        }
    }
    // symmetric
    let sym = bool_of(run(&op2("==", &json!({"var": "b"}), &json!({"var": "a"})), &data, obs)?);
    if sym != Some(got) {
        return Err(format!("== is not symmetric: {} == {} is {} but {} == {} is {:?}", a, b, got, b, a, sym));
    }
    // != is the negation
    let ne = bool_of(run(&op2("!=", &json!({"var": "a"}), &json!({"var": "b"})), &data, obs)?);
    if ne != Some(!got) {
        return Err(format!("!= is not the negation of ==: {} == {} is {} but != is {:?}", a, b, got, ne));
    }
    // public helpers on distinct instances
    let (a2, b2) = (a.clone(), b.clone());
    let h = crate::imp::guarded(|| crate::helpers::abstract_eq_ne(&a2, &b2)).map_err(|m| format!("js_op::abstract_eq/ne panicked ({}) on {} , {}", m, a, b))?;
    obs.evals += 2;
    if let Some(h) = h {
        if h.0 != got || h.1 == got {
            return Err(format!("js_op::abstract_eq/ne ({}, {}) disagree with the operator ({}) on {} , {}", h.0, h.1, got, a, b));
        }
    }
    Ok(got)
}

fn canonical_pair(a: &Value, b: &Value) -> bool {
    match (a, b) {
        (Value::String(s), n @ Value::Number(_)) | (n @ Value::Number(_), Value::String(s)) => n.to_string() == *s,
        _ => false,
    }
}

fn classify(a: &Value, b: &Value, obs: &mut Obs) {
    let (ca, cb) = (type_class(a), type_class(b));
    if ca != cb {
        if !canonical_pair(a, b) {
            obs.nt(&format!("{}~{}", ca.min(cb), ca.max(cb)));
        } else {
            obs.class("string~number canonical");
        }
    } else if matches!(a, Value::Array(_) | Value::Object(_)) {
        obs.nt(&format!("{}~{} (never equal)", ca, cb));
    } else {
        obs.class(&format!("same class {}", ca));
    }
}

fn check_corpus(case: &Value, obs: &mut Obs) -> Result<(), String> {
    let (a, b) = (&case["a"], &case["b"]);
    let want = case["eq"].as_bool();
    classify(a, b, obs);
    eq_all_routes(a, b, want, obs).map(|_| ())
}

fn fixed_corpus() -> Vec<Value> {
    corpus::load_pairs(&corpus::root()).unwrap_or_default().into_iter().map(|r| json!({"a": r.a, "b": r.b, "eq": r.eq})).collect()
}

fn check_pair(case: &Value, obs: &mut Obs) -> Result<(), String> {
    let (a, b) = (&case["a"], &case["b"]);
    classify(a, b, obs);
    let want = match coerce::abstract_eq(a, b) {
        Tri::True => Some(true),
        Tri::False => Some(false),
        Tri::Unspec(z) => {
            obs.skip(z);
            None
        }
    };
    eq_all_routes(a, b, want, obs).map(|_| ())
}

fn gen_pairs() -> BoxedStrategy<Value> {
    gen::related_pairs().prop_map(|(a, b)| json!({"a": a, "b": b})).boxed()
}

/// Numeric strings recorded from JavaScript: `s == Number(s)` and `s != Number(s)+1`; non-numeric strings equal no number.
fn check_tonumber(case: &Value, obs: &mut Obs) -> Result<(), String> {
    let s = &case["s"];
    let n = corpus::bits(case["n"].as_str().unwrap_or(""));
    if n.is_nan() {
        obs.nt("non-numeric string");
        for probe in [json!(0), json!(1), json!(-1)] {
            eq_all_routes(s, &probe, Some(false), obs)?;
        }
        // and NaN-valued strings are not equal to anything numeric through an array either
        eq_all_routes(&json!([s]), &json!(0), Some(false), obs)?;
    } else if n.is_finite() {
        if s.as_str().map(|t| t == gen::f(n).to_string()).unwrap_or(false) {
            obs.class("canonical numeric string");
        } else {
            obs.nt("numeric string");
        }
        eq_all_routes(s, &gen::f(n), Some(true), obs)?;
        let other = if n + 1.0 != n { n + 1.0 } else { n * 2.0 };
        if other.is_finite() && other != n {
            eq_all_routes(s, &gen::f(other), Some(false), obs)?;
        }
        // the adjacent doubles are different numbers
        for up in [true, false] {
            let adj = if n == 0.0 { if up { 5e-324 } else { -5e-324 } } else { f64::from_bits(if (n > 0.0) == up { n.to_bits() + 1 } else { n.to_bits() - 1 }) };
            if adj.is_finite() && adj != n {
                eq_all_routes(s, &gen::f(adj), Some(false), obs)?;
            }
        }
        if n.fract() == 0.0 && n.abs() < 9.0e15 {
            eq_all_routes(s, &json!(n as i64), Some(true), obs)?;
        }
    } else {
        obs.nt("infinite numeric string");
        eq_all_routes(s, &gen::f(1e308), Some(false), obs)?;
        eq_all_routes(s, s, Some(true), obs)?;
    }
    Ok(())
}

fn fixed_tonumber() -> Vec<Value> {
    // every 4th string of the recorded corpus in the quick tier would under-sample the traps; use all of them
    std::fs::read_to_string(corpus::root().join("corpus/js_tonumber.jsonl")).unwrap_or_default().lines().filter_map(|l| serde_json::from_str::<Value>(l).ok()).collect()
}

fn check_rules(case: &Value, obs: &mut Obs) -> Result<(), String> {
    let d = diff(rule_of(case), data_of(case), obs, TraceMode::Multiset)?;
    if d.model.is_ok() && d.ctx.ops_executed & 0b11 != 0 {
        obs.nt("nested ==/!= rule");
    }
    Ok(())
}

fn gen_rules() -> BoxedStrategy<Value> {
    let cfg = rules::Cfg::new(&["==", "!=", "==", "!=", "!", "cat", "merge", "if", "var"]).leaf(gen::cmp_values()).poison(0).bad_arity(10);
    gen::case2(rules::rooted(cfg), gen::data_docs())
}


/// accumulated state: see common::sweep
fn sweep_item(kind: u64, k: usize) -> (Value, Value) {
    match kind % 3 {
        0 => (json!({"==": [format!(" {} ", 1000 + k), 1000 + k]}), Value::Null),
        1 => (json!({"!=": [format!("0x{:x}", 4096 + k), {"var": "n"}]}), json!({"n": 4096 + k})),
        _ => (json!({"==": [[format!("{}", k)], format!("{}", k)]}), Value::Null),
    }
}

fn check_state_sweep(case: &Value, obs: &mut Obs) -> Result<(), String> {
    let w = case["w"].as_u64().unwrap_or(1) as usize;
    let kind = case["kind"].as_u64().unwrap_or(0);
    sweep(w, &|k| sweep_item(kind, k), obs)?;
    obs.nt(&format!("sweep kind {} W {}", kind, if w < 64 { "<64" } else if w < 128 { "64-127" } else { "128+" }));
    Ok(())
}

fn fixed_state_sweeps() -> Vec<Value> {
    sweep_cases(3, 300)
}


fn gen_per_element() -> BoxedStrategy<Value> {
    let cfg = rules::Cfg::new(&["==", "!=", "==", "!=", "!", "cat", "merge", "if", "var"]).leaf(gen::cmp_values()).poison(0).bad_arity(0);
    per_element_cases(rules::rooted(cfg), gen::data_docs())
}

pub fn property() -> Property {
    Property {
        id: "C07",
        subs: vec![
            Sub {
                name: "fuzz_corpus_replay",
                about: "every committed corpus input and saved artifact of the libFuzzer target fz_eq - one application of == / != whose operands are written by the fuzzer as text lines (a line that parses as JSON is that value, any other line is a raw string such as ` 0x1F ` or `12px`; operands literal or through var) - replayed through the target's own body against the reference model; the committed corpus is the coverage-distinct set distilled from campaigns on the unchanged tree, so each input reaches a different piece of the implementation. The thorough tier additionally runs the coverage-guided campaign.",
                nontrivial: "the decoded rule is evaluated and the model determines the outcome.",
                strategy: None,
                fixed: Some(|| fuzz_corpus_cases("fz_eq")),
                fixed_exhaustive: false,
                check: check_fuzz_case,
                quick: 0,
                thorough: 0,
                small_stack: false,
            },
            Sub {
                name: "per_element",
                about: "this property's operators inside an expression used as the body of map / filter / all / some / none over 2-5 different elements: element by element the outcome must be what the expression gives on that element alone (model-free per-element law); catches anything the shared evaluation machinery remembers from one element to the next.",
                nontrivial: "the expression gives different results on different elements.",
                strategy: Some(gen_per_element),
                fixed: None,
                fixed_exhaustive: false,
                check: per_element_law,
                quick: 40_000,
                thorough: 2_000_000,
                small_stack: false,
            },
            Sub {
                name: "state_sweep",
                about: "accumulated state: for every W in 1..300 and each kind of keyed work of this operator family (padded decimal strings against numbers, hexadecimal strings against data, one-element arrays against strings), W hot items are evaluated twice, then a new item, the hot set again, another new item, and everything in reverse; every call against the reference model - a cache, pool or table with any capacity up to 300 is driven exactly over its boundary.",
                nontrivial: "every case.",
                strategy: None,
                fixed: Some(fixed_state_sweeps),
                fixed_exhaustive: false,
                check: check_state_sweep,
                quick: 0,
                thorough: 0,
                small_stack: false,
            },
            Sub {
                name: "js_corpus",
                about: "every ordered pair of 158 JSON values with the == bit recorded from a real JavaScript engine (fresh instances); asked as literal operands, through var, swapped, negated, and via js_op::abstract_eq/ne.",
                nontrivial: "operands of different type classes (not a number against its own canonical decimal text) or two containers.",
                strategy: None,
                fixed: Some(fixed_corpus),
                fixed_exhaustive: true,
                check: check_corpus,
                quick: 0,
                thorough: 0,
                small_stack: false,
            },
            Sub {
                name: "js_tonumber",
                about: "62k numeric / near-numeric strings with Number(s) recorded from JavaScript: s == Number(s), s != another number, NaN strings equal no number (also through [s]).",
                nontrivial: "string that is not the canonical decimal text of its number, or non-numeric.",
                strategy: None,
                fixed: Some(fixed_tonumber),
                fixed_exhaustive: true,
                check: check_tonumber,
                quick: 0,
                thorough: 0,
                small_stack: false,
            },
            Sub {
                name: "pairs_model",
                about: "generated pairs over the value corpus (b often derived from a: string form, [a], padded, re-spelled, ToNumber(a)) against the ECMA-262 7.2.14 model; all routes, symmetry, negation, helpers.",
                nontrivial: "operands of different type classes (not canonical number/string) or two containers.",
                strategy: Some(gen_pairs),
                fixed: None,
                fixed_exhaustive: false,
                check: check_pair,
                quick: 200_000,
                thorough: 10_000_000,
                small_stack: false,
            },
            Sub {
                name: "rules_model",
                about: "generated nested rules over == != ! cat merge if var against the reference model (value and log multiset).",
                nontrivial: "the model determines the result and an == or != was executed.",
                strategy: Some(gen_rules),
                fixed: None,
                fixed_exhaustive: false,
                check: check_rules,
                quick: 60_000,
                thorough: 3_000_000,
                small_stack: false,
            },
        ],
        assumptions: vec![
            "the recorded JavaScript corpus (Node 20) is ECMAScript ground truth",
            "a number's string form is serde_json's text (zone U9); decimal strings with more than 20 significant digits are skipped (U11)",
            "rustc/std f64 parsing and arithmetic are correctly rounded; serde_json Value model",
        ],
    }
}
