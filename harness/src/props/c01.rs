//! C01 - evaluation is total: a value or an error, never a panic, abort, stack overflow or hang.

use super::common::*;
use crate::cli;
use crate::gen::{self, rules};
use crate::imp::{self, Out};
use crate::model::{self, Res};
use crate::runner::{Obs, Property, Sub};
use proptest::collection::vec;
use proptest::prelude::*;
use proptest::sample::select;
use serde_json::{json, Map, Value};

/// operands most likely to break index arithmetic, narrowing and slicing
fn extreme_leaf() -> gen::VS {
    prop_oneof![
        4 => select(gen::INT_EXTREMES.to_vec()).prop_map(gen::j),
        2 => select(gen::UINT_EXTREMES.to_vec()).prop_map(gen::j),
        3 => select(gen::FLOAT_SPECIALS.to_vec()).prop_map(gen::f),
        2 => any::<i64>().prop_map(gen::j),
        2 => any::<u64>().prop_map(|b| { let x = f64::from_bits(b); if x.is_finite() { gen::f(x) } else { gen::f(-1e104) } }),
        3 => gen::texts(8).prop_map(gen::j),
        1 => gen::long_texts().prop_map(gen::j),
        2 => gen::num_strings().prop_map(gen::j),
        2 => select(vec!["héllo", "日本語", "a😀b", "𝄞", "", "\u{0301}", "\u{FEFF}", "-9223372036854775808", "9223372036854775808", "a.-9223372036854775808", "0.-1.9223372036854775807", "\\", "a\\", ".", "..", "1e400", "-1e400", "0x", "Infinity"]).prop_map(|s| json!(s)),
        2 => gen::small_ints(),
        2 => gen::values(),
        1 => vec(gen::scalars(), 0..=5).prop_map(Value::Array),
    ]
    .boxed()
}

fn extreme_data() -> gen::VS {
    prop_oneof![
        3 => gen::data_docs(),
        2 => gen::object_of(extreme_leaf(), 4),
        2 => vec(extreme_leaf(), 0..=5).prop_map(Value::Array),
        1 => gen::texts(8).prop_map(gen::j),
        1 => extreme_leaf(),
    ]
    .boxed()
}

fn depth_of(v: &Value) -> usize {
    match v {
        Value::Array(a) => 1 + a.iter().map(depth_of).max().unwrap_or(0),
        Value::Object(o) => 1 + o.values().map(depth_of).max().unwrap_or(0),
        _ => 0,
    }
}

/// The totality oracle for one (rule, data): no panic, Ok or Err, an Ok value serialises and re-parses.
fn total(rule: &Value, data: &Value, obs: &mut Obs) -> Result<Option<Value>, String> {
    // inherent cost is not a hang: skip what the *model* already finds too expensive (DESIGN 2.2.1)
    let (m, ctx) = model::eval(rule, data);
    if let Res::Unspec("over_budget") = m {
        obs.skip("over_budget");
        return Ok(None);
    }
    let t = imp::apply_traced(rule, data);
    obs.evals += 1;
    match &t.out {
        Out::Panic(msg) => return Err(format!("PANIC: {} -- evaluating {}", msg, fmt_case(rule, data))),
        Out::Ok(v) => {
            let text = v.to_string();
            match serde_json::from_str::<Value>(&text) {
                // serde_json's default float parser is not bit-exact on its own output (no float_roundtrip feature):
                // demand the same document up to the last bits of a double, not bit identity
                Ok(back) if same_shape(&back, v) => {}
                Ok(back) => return Err(format!("the result does not survive serialisation: {} re-parses as {} ({})", text, back, fmt_case(rule, data))),
                Err(e) => {
                    // results nested deeper than serde_json's own limit are legitimate values; only that limit may object
                    if !e.to_string().contains("recursion limit") {
                        return Err(format!("the result does not serialise to valid JSON: {} ({}) for {}", text, e, fmt_case(rule, data)));
                    }
                }
            }
        }
        Out::Err(_) => {}
    }
    if !t.stderr.is_empty() {
        return Err(format!("wrote to stderr: {:?} for {}", String::from_utf8_lossy(&t.stderr), fmt_case(rule, data)));
    }
    let executed = ctx.ops_executed.count_ones();
    let _ = executed;
    Ok(match t.out {
        Out::Ok(v) => Some(v),
        _ => None,
    })
}

fn same_shape(a: &Value, b: &Value) -> bool {
    match (a, b) {
        (Value::Number(x), Value::Number(y)) => {
            if x == y {
                return true;
            }
            match (x.as_f64(), y.as_f64()) {
                (Some(p), Some(q)) => close(p, q),
                _ => false,
            }
        }
        (Value::Array(x), Value::Array(y)) => x.len() == y.len() && x.iter().zip(y.iter()).all(|(p, q)| same_shape(p, q)),
        (Value::Object(x), Value::Object(y)) => x.len() == y.len() && x.iter().all(|(k, p)| y.get(k).map(|q| same_shape(p, q)).unwrap_or(false)),
        _ => a == b,
    }
}

fn has_big_operand(v: &Value) -> bool {
    match v {
        Value::Number(n) => {
            if let Some(i) = n.as_i64() {
                i.unsigned_abs() > (1u64 << 31)
            } else if n.as_u64().is_some() {
                true
            } else {
                let a = n.as_f64().unwrap_or(0.0).abs();
                a != 0.0 && !(1e-6..=1e15).contains(&a)
            }
        }
        Value::String(s) => !s.is_ascii(),
        Value::Array(a) => a.iter().any(has_big_operand),
        Value::Object(o) => o.values().any(has_big_operand) || o.keys().any(|k| !k.is_ascii()),
        _ => false,
    }
}

fn classify(rule: &Value, data: &Value, obs: &mut Obs) {
    let (_, ctx) = model::eval(rule, data);
    let root = model::eval::as_operation(rule).map(|x| x.0).unwrap_or("literal");
    // the fixed data document of extreme_flat does not count: the rule's own operands must be extreme
    let data_counts = data.get("big").is_none();
    if ctx.ops_executed != 0 && (has_big_operand(rule) || (data_counts && has_big_operand(data)) || depth_of(rule) > 16 || depth_of(data) > 16) {
        obs.nt(&format!("{} with extreme operand", root));
    } else if ctx.ops_executed != 0 {
        obs.class(&format!("{} small operands", root));
    } else {
        obs.class("no operator executed");
    }
}

fn check_total(case: &Value, obs: &mut Obs) -> Result<(), String> {
    let (rule, data) = (rule_of(case), data_of(case));
    total(rule, data, obs)?;
    classify(rule, data, obs);
    Ok(())
}

fn gen_extreme() -> BoxedStrategy<Value> {
    let cfg = rules::Cfg::all_ops().leaf(extreme_leaf()).poison(1).bad_arity(30).depth(3);
    gen::case2(rules::rooted(cfg), extreme_data())
}

/// every operator x operands drawn only from the extremes, valid arity, flat: index / length / arithmetic corners
fn gen_extreme_flat() -> BoxedStrategy<Value> {
    let e = || prop_oneof![
        3 => select(vec![i64::MIN, i64::MIN + 1, i64::MAX, -1, 0, 1, -2147483648, 2147483648]).prop_map(gen::j),
        1 => select(vec![u64::MAX, 9223372036854775808u64]).prop_map(gen::j),
        2 => select(vec![f64::MAX, -f64::MAX, 5e-324, -1e104, 1e19, -1e19, 1.5, -0.0, 9223372036854775808.0, -9223372036854775808.0]).prop_map(gen::f),
        2 => select(vec!["héllo", "日本語", "a😀b", "", "-9223372036854775808", "1e400", " 1 ", "0x10"]).prop_map(|s| json!(s)),
        1 => Just(json!([])),
        1 => Just(json!([i64::MIN])),
        1 => Just(Value::Null),
    ];
    let nested_arith = (select(vec!["+", "-", "*", "/", "%", "min", "max"]), e(), e()).prop_map(|(op, a, b)| op2(op, &a, &b));
    let operand = prop_oneof![4 => e(), 2 => nested_arith, 1 => select(vec!["a", "s", "n", "big", ""]).prop_map(|k| json!({"var": k}))];
    (select(gen::OP_NAMES.to_vec()), vec(operand, 3), 0usize..4)
        .prop_map(|(op, args, extra)| {
            let (_, _, lo, hi) = model::eval::op_info(op).unwrap();
            let n = (lo + extra).min(hi).min(3).max(lo);
            let a: Vec<Value> = args.into_iter().cycle().take(n).collect();
            json!({"rule": opn(op, &a), "data": {"a": [1, 2, 3], "s": "héllo wörld 😀", "n": i64::MIN, "big": 1e300, "": "empty-key"}})
        })
        .boxed()
}

/// arbitrary JSON in which any object may carry an operator key with an arbitrary operand shape
fn gen_wild() -> BoxedStrategy<Value> {
    let leaf: gen::VS = prop_oneof![3 => extreme_leaf(), 2 => gen::scalars()].boxed();
    let wild = leaf
        .prop_recursive(5, 48, 5, |inner| {
            prop_oneof![
                3 => (select(gen::OP_NAMES.to_vec()), inner.clone()).prop_map(|(k, v)| op_raw(k, v)),
                3 => (select(gen::OP_NAMES.to_vec()), vec(inner.clone(), 0..=5)).prop_map(|(k, v)| op_raw(k, Value::Array(v))),
                2 => vec(inner.clone(), 0..=5).prop_map(Value::Array),
                1 => gen::object_of(inner, 3),
            ]
            .boxed()
        })
        .boxed();
    gen::case2(wild.clone(), prop_oneof![2 => extreme_data(), 1 => wild].boxed())
}

// ------------------------------------------------------------------------------------------------ deep documents

fn nest(op: &str, levels: usize, bare: bool, core: Value, position_last: bool, fill: &Value) -> Value {
    let mut v = core;
    let (_, _, lo, hi) = model::eval::op_info(op).unwrap();
    for _ in 0..levels {
        v = if bare {
            op_raw(op, v)
        } else {
            let n = lo.max(1).min(hi);
            let mut args: Vec<Value> = vec![fill.clone(); n];
            let at = if position_last { n - 1 } else { 0 };
            args[at] = v;
            opn(op, &args)
        };
    }
    v
}

fn deep_value(levels: usize, object: bool, leaf: Value) -> Value {
    let mut v = leaf;
    for _ in 0..levels {
        v = if object {
            let mut m = Map::new();
            m.insert("k".into(), v);
            Value::Object(m)
        } else {
            Value::Array(vec![v])
        };
    }
    v
}

fn fixed_deep() -> Vec<Value> {
    let mut out = vec![];
    let fill = json!(1);
    for (op, _, _, _) in model::eval::OPS {
        // bracketed: 63 operator levels = 126 JSON levels (+ the leaf)
        out.push(json!({"rule": nest(op, 63, false, json!(1), false, &fill), "data": {"a": 1}}));
        out.push(json!({"rule": nest(op, 63, false, json!("x"), true, &fill), "data": [1, 2]}));
        // bracket-less: 127 levels
        out.push(json!({"rule": nest(op, 127, true, json!(1), false, &fill), "data": null}));
        // the operator on top of a deep literal / deep data
        for object in [false, true] {
            let deep = deep_value(124, object, json!(1));
            out.push(json!({"rule": opn(op, &[json!({"var": "d"}), json!({"var": "d"}), json!({"var": "d"})][..model::eval::op_info(op).unwrap().2.max(1).min(3)]), "data": {"d": deep}}));
            out.push(json!({"rule": op_raw(op, json!([deep_value(120, object, json!(1)), deep_value(120, object, json!(1.0))])), "data": null}));
        }
    }
    // deep equal containers met by `in`, `==`, `===`, cat, merge, var paths, missing
    for depth in [30usize, 60, 100, 124] {
        for object in [false, true] {
            let a = deep_value(depth, object, json!(1));
            let b = deep_value(depth, object, json!(1.0));
            let c = deep_value(depth, object, json!(2));
            let data = json!({"needle": a, "hay": [c.clone(), b.clone()], "other": c});
            out.push(json!({"rule": {"in": [{"var": "needle"}, {"var": "hay"}]}, "data": data}));
            out.push(json!({"rule": {"in": [{"var": "other"}, {"var": "hay"}]}, "data": data}));
            out.push(json!({"rule": {"==": [{"var": "needle"}, {"var": "hay.1"}]}, "data": data}));
            out.push(json!({"rule": {"<=": [{"var": "needle"}, {"var": "hay.1"}]}, "data": data}));
            out.push(json!({"rule": {"cat": [{"var": "needle"}, {"var": "hay"}]}, "data": data}));
            out.push(json!({"rule": {"merge": [{"var": "hay"}, {"var": "hay"}]}, "data": data}));
            out.push(json!({"rule": {"all": [{"var": "hay"}, {"in": [{"var": ""}, {"merge": [[{"var": ""}]]}]}]}, "data": data}));
            let path = if object { vec!["k"; depth].join(".") } else { vec!["0"; depth].join(".") };
            out.push(json!({"rule": {"var": format!("needle.{}", path)}, "data": data}));
            out.push(json!({"rule": {"missing": [format!("needle.{}", path), format!("needle.{}.x", path)]}, "data": data}));
            out.push(json!({"rule": {"map": [{"var": "hay"}, {"var": path}]}, "data": data}));
        }
    }
    // mixed lazy / eager towers
    let mut tower = json!({"var": "a"});
    for i in 0..62 {
        tower = match i % 6 {
            0 => json!({"if": [tower, 1, 2]}),
            1 => json!({"cat": [tower]}),
            2 => json!({"and": [true, tower]}),
            3 => json!({"map": [[1], tower]}),
            4 => json!({"!": [tower]}),
            _ => json!({"reduce": [[1], tower, 0]}),
        };
    }
    out.push(json!({"rule": tower, "data": {"a": [1]}}));
    out
}

fn check_deep(case: &Value, obs: &mut Obs) -> Result<(), String> {
    let (rule, data) = (rule_of(case), data_of(case));
    // in the domain of the text interfaces?  (serde_json refuses more than 128 levels)
    let ok_text = |v: &Value| serde_json::from_str::<Value>(&v.to_string()).is_ok();
    if !ok_text(rule) || !ok_text(data) {
        obs.class("deeper than the text interfaces can deliver");
        return Ok(());
    }
    total(rule, data, obs)?;
    let d = depth_of(rule).max(depth_of(data));
    if d > 16 {
        obs.nt(&format!("depth {}-{}", d / 32 * 32, d / 32 * 32 + 31));
    } else {
        obs.class("shallow");
    }
    Ok(())
}

fn gen_deep() -> BoxedStrategy<Value> {
    let pick_op = || select(gen::OP_NAMES.to_vec());
    (vec((pick_op(), any::<bool>(), any::<bool>()), 1..=8), 20usize..=63, extreme_leaf(), extreme_data(), extreme_leaf())
        .prop_map(|(ops, levels, core, data, fill)| {
            // a tower that cycles through a few operators; trimmed to the depth the text interface admits
            let mut v = core;
            let mut budget: i64 = 126 - depth_of(&v) as i64;
            let mut i = 0;
            while budget > 2 && i < levels * 2 {
                let (op, bare, last) = ops[i % ops.len()];
                let before = depth_of(&v);
                v = nest(op, 1, bare, v, last, &fill);
                budget -= (depth_of(&v) - before) as i64;
                i += 1;
            }
            json!({"rule": v, "data": data})
        })
        .boxed()
}

// ------------------------------------------------------------------------------------------------ accumulated state

/// the working-set sweeps of C17 (W hot keys, a new key, the hot set again, for every W up to 300) under the totality oracle
fn check_sweep_total(case: &Value, obs: &mut Obs) -> Result<(), String> {
    let w = case["w"].as_u64().unwrap_or(1) as usize;
    let kind = case["kind"].as_u64().unwrap_or(0);
    for (rule, data) in super::c17::sweep_calls(w, kind) {
        total(&rule, &data, obs)?;
    }
    // the public helpers see the same sequence of strings
    let strings: Vec<String> = (0..w).chain(0..w).chain(w..w + 1).chain(0..=w).map(|k| format!("{}", 1000 + k)).collect();
    let r = imp::guarded(|| crate::helpers::string_conversions(&strings));
    if let Err(m) = r {
        return Err(format!("a public js_op helper panicked ({}) during a working-set sweep with {} hot strings", m, w));
    }
    obs.nt(&format!("sweep kind {} W {}", kind, if w < 64 { "<64" } else if w < 128 { "64-127" } else { "128+" }));
    Ok(())
}

fn fixed_sweeps_total() -> Vec<Value> {
    let mut out = vec![];
    for kind in 0..6u64 {
        for w in 1..=300usize {
            out.push(json!({"w": w, "kind": kind}));
        }
    }
    out
}

// ------------------------------------------------------------------------------------------------ public helpers

fn check_helpers(case: &Value, obs: &mut Obs) -> Result<(), String> {
    let a = case["a"].clone();
    let b = case["b"].clone();
    let list: Vec<Value> = case["list"].as_array().cloned().unwrap_or_default();
    let s = case["a"].as_str().unwrap_or("").to_string();
    if !crate::helpers::AVAILABLE {
        obs.skip("helper API not available in this build");
        return Ok(());
    }
    let r = imp::guarded(|| crate::helpers::all(&a, &b, &list, &s));
    obs.evals += 24;
    match r {
        Ok(_) => {}
        Err(m) => return Err(format!("a public js_op helper panicked: {} -- a = {} b = {} list = {}", m, a, b, Value::Array(list))),
    }
    if has_big_operand(&a) || has_big_operand(&b) || list.iter().any(has_big_operand) {
        obs.nt(&format!("helpers on {} x {}", type_class(&a), type_class(&b)));
    } else {
        obs.class("helpers on small operands");
    }
    Ok(())
}

fn gen_helpers() -> BoxedStrategy<Value> {
    let v = || prop_oneof![3 => extreme_leaf(), 2 => gen::cmp_values(), 1 => gen::values()];
    (v(), v(), vec(v(), 0..=4)).prop_map(|(a, b, list)| json!({"a": a, "b": b, "list": list})).boxed()
}

// ------------------------------------------------------------------------------------------------ CLI leg

fn check_cli(case: &Value, obs: &mut Obs) -> Result<(), String> {
    let (rule, data) = (rule_of(case), data_of(case));
    let (m, _) = model::eval(rule, data);
    if let Res::Unspec("over_budget") = m {
        obs.skip("over_budget");
        return Ok(());
    }
    let profile = if case["release"].as_bool().unwrap_or(false) { "release" } else { "dev" };
    let bin = match cli::bin(profile) {
        Some(b) => b,
        None => return Err("oracle_broken: CLI binary missing (JLV_CLI_DEV / JLV_CLI_RELEASE)".into()),
    };
    let channel = match case["channel"].as_u64().unwrap_or(0) % 3 {
        0 => cli::Channel::Arg(data.to_string()),
        1 => cli::Channel::StdinNoArg(data.to_string()),
        _ => cli::Channel::StdinDash(data.to_string()),
    };
    let rule_text = rule.to_string();
    if matches!(rule_text.as_str(), "-h" | "-V" | "--help" | "--version") {
        obs.skip("U12");
        return Ok(());
    }
    let out = cli::run(&bin, &rule_text, &channel)?;
    obs.evals += 1;
    if out.timed_out {
        return Err(format!("[{}] the jsonlogic command did not finish within 180 s (after a first attempt exceeded 30 s) for {}", profile, fmt_case(rule, data)));
    }
    let stderr = String::from_utf8_lossy(&out.stderr).to_string();
    match out.code {
        Some(0) | Some(1) => {}
        other => return Err(format!("[{}] the jsonlogic command ended with status {:?} signal {:?} (stderr {:?}) for {}", profile, other, out.signal, stderr.chars().take(300).collect::<String>(), fmt_case(rule, data))),
    }
    if stderr.contains("panicked") {
        return Err(format!("[{}] the jsonlogic command panicked: {} for {}", profile, stderr.chars().take(300).collect::<String>(), fmt_case(rule, data)));
    }
    if has_big_operand(rule) || has_big_operand(data) {
        obs.nt(&format!("cli {} extreme operand", profile));
    } else {
        obs.class(&format!("cli {}", profile));
    }
    Ok(())
}

fn gen_cli() -> BoxedStrategy<Value> {
    (prop_oneof![2 => gen_extreme(), 2 => gen_extreme_flat(), 1 => gen_wild()], any::<bool>(), 0u64..3)
        .prop_map(|(mut c, rel, ch)| {
            c["release"] = json!(rel);
            c["channel"] = json!(ch);
            c
        })
        .boxed()
}

fn fixed_cli() -> Vec<Value> {
    let mut out = vec![];
    let cases = vec![
        (json!({"var": [i64::MIN]}), json!([1, 2])),
        (json!({"substr": ["abc", 0, i64::MIN]}), Value::Null),
        (json!({"substr": ["héllo", i64::MIN]}), Value::Null),
        (json!({"var": [{"*": [-1e104]}]}), json!([1])),
        (json!({"+": [1.7e308, 1.7e308]}), Value::Null),
        (json!({"%": [i64::MIN, -1]}), Value::Null),
        (json!({"/": [i64::MIN, -1]}), Value::Null),
        (json!({"*": [i64::MIN, -1]}), Value::Null),
        (json!({"-": [i64::MIN]}), Value::Null),
        (json!({"var": "a.-9223372036854775808"}), json!({"a": [1]})),
        (json!({"missing_some": [u64::MAX, ["a"]]}), json!({})),
        (json!({"==": [1]}), Value::Null),
    ];
    for (r, d) in cases {
        for rel in [false, true] {
            out.push(json!({"rule": r, "data": d, "release": rel, "channel": 0}));
        }
    }
    // documents at the depth limit of the text interface, through the real process (8 MiB main-thread stack)
    let fill = json!(1);
    for op in ["!", "cat", "if", "map", "reduce", "var", "+", "merge", "all", "log"] {
        for rel in [false, true] {
            out.push(json!({"rule": nest(op, 63, false, json!(1), true, &fill), "data": {"a": 1}, "release": rel, "channel": 1}));
        }
    }
    for object in [false, true] {
        let deep = deep_value(120, object, json!(1));
        let data = json!({"needle": deep, "hay": [deep_value(120, object, json!(2)), deep_value(120, object, json!(1.0))]});
        for rule in [json!({"in": [{"var": "needle"}, {"var": "hay"}]}), json!({"==": [{"var": "needle"}, {"var": "hay.1"}]}), json!({"cat": [{"var": "hay"}]}), json!({"var": ""})] {
            out.push(json!({"rule": rule, "data": data, "release": true, "channel": 2}));
            out.push(json!({"rule": rule, "data": data, "release": false, "channel": 0}));
        }
    }
    out
}

pub fn property() -> Property {
    Property {
        id: "C01",
        subs: vec![
            Sub {
                name: "extreme_flat",
                about: "every operator with a valid operand count whose operands are drawn only from the extremes (i64::MIN, MIN+1, MAX, u64::MAX, 2^63 as float, f64::MAX, 5e-324, -1e104, multi-byte strings, numeric strings) or from one arithmetic step over them (results beyond 2^63 / non-finite feeding var / substr indices); oracle = catch_unwind, result is Ok or Err, an Ok value serialises and re-parses, nothing on stderr; run in the overflow-checked and in the release profile.",
                nontrivial: "an operator with a valid operand count was executed on a non-small operand (|int| > 2^31, non-ASCII text, |double| outside [1e-6,1e15], or depth > 16).",
                strategy: Some(gen_extreme_flat),
                fixed: None,
                fixed_exhaustive: false,
                check: check_total,
                quick: 150_000,
                thorough: 8_000_000,
                small_stack: false,
            },
            Sub {
                name: "extreme_nested",
                about: "the general rule grammar over all 35 operators (depth 3, 3% wrong operand counts, poison) with extreme leaves and extreme data; same oracle.",
                nontrivial: "as extreme_flat.",
                strategy: Some(gen_extreme),
                fixed: None,
                fixed_exhaustive: false,
                check: check_total,
                quick: 150_000,
                thorough: 8_000_000,
                small_stack: false,
            },
            Sub {
                name: "wild",
                about: "arbitrary JSON documents (depth 5) in which any object may carry an operator key with an arbitrary operand shape (wrong counts, non-array operands, nested literals), as rule and as data; same oracle.",
                nontrivial: "as extreme_flat.",
                strategy: Some(gen_wild),
                fixed: None,
                fixed_exhaustive: false,
                check: check_total,
                quick: 100_000,
                thorough: 5_000_000,
                small_stack: false,
            },
            Sub {
                name: "deep_enumerated",
                about: "for each of the 35 operators: a 63-level bracketed tower (126 JSON levels) nested in the first / last operand, a 127-level bracket-less tower, the operator over 124-deep arrays / objects from data and over two 120-deep literals; deep equal containers (depth 30 / 60 / 100 / 124, spelled 1 vs 1.0) met by in, ==, <=, cat, merge, all, var paths, missing, map; a mixed lazy / eager tower; each case runs in a fresh thread with a 2 MiB stack under the 20 s CPU watchdog.",
                nontrivial: "nesting depth above 16.",
                strategy: None,
                fixed: Some(fixed_deep),
                fixed_exhaustive: false,
                check: check_deep,
                quick: 0,
                thorough: 0,
                small_stack: true,
            },
            Sub {
                name: "deep_generated",
                about: "generated towers cycling through 1..8 random operators (bracketed or bracket-less, nested first or last) up to the 128-level limit of the text interfaces, extreme leaves and data; 2 MiB stack; same oracle.",
                nontrivial: "nesting depth above 16.",
                strategy: Some(gen_deep),
                fixed: None,
                fixed_exhaustive: false,
                check: check_deep,
                quick: 6_000,
                thorough: 300_000,
                small_stack: true,
            },
            Sub {
                name: "working_set_sweep",
                about: "accumulated state: for every W in 1..300 and six kinds of keyed work, W hot items touched twice, a new item, the hot set again (through apply and through the public helpers str_to_number / parse_float / to_number): no call may panic, whatever capacity boundary, eviction or collision path it lands on.",
                nontrivial: "every case.",
                strategy: None,
                fixed: Some(fixed_sweeps_total),
                fixed_exhaustive: false,
                check: check_sweep_total,
                quick: 0,
                thorough: 0,
                small_stack: false,
            },
            Sub {
                name: "helpers",
                about: "direct calls of all 23 public js_op functions (to_string, str_to_number, to_number, parse_float, abstract_eq/ne/lt/gt/lte/gte, strict_eq/ne, abstract_plus/minus/div/mod/max/min, parse_float_add/mul, to_negative) on generated values, pairs and lists incl. the extremes; oracle = no panic.",
                nontrivial: "a non-small operand.",
                strategy: Some(gen_helpers),
                fixed: None,
                fixed_exhaustive: false,
                check: check_helpers,
                quick: 100_000,
                thorough: 5_000_000,
                small_stack: false,
            },
            Sub {
                name: "fuzz_corpus_replay",
                about: "every committed seed and saved artifact of the libFuzzer target fz_total (bytes -> rule text, newline, data text -> serde_json::from_str x2 -> apply) replayed through the target's own body in the ordinary build; the thorough tier additionally runs the coverage-guided campaign (16 forks).",
                nontrivial: "the input parses as two JSON texts and is evaluated.",
                strategy: None,
                fixed: Some(|| fuzz_corpus_cases("fz_total")),
                fixed_exhaustive: false,
                check: check_fuzz_case,
                quick: 0,
                thorough: 0,
                small_stack: true,
            },
            Sub {
                name: "cli_known_corners",
                about: "12 corner inputs (i64::MIN indices and lengths, overflowing products feeding var, i64::MIN % -1, ...), ten 63-level operator towers and 120-deep equal containers met by in / == / cat / var, through the dev and release jsonlogic binaries.",
                nontrivial: "an extreme operand.",
                strategy: None,
                fixed: Some(fixed_cli),
                fixed_exhaustive: false,
                check: check_cli,
                quick: 0,
                thorough: 0,
                small_stack: false,
            },
            Sub {
                name: "cli",
                about: "generated extreme rules and data through the real jsonlogic binary (dev = overflow-checked, release), data by argument / stdin / stdin with '-': the process must end with exit status 0 or 1, never 101 or a signal, and never print 'panicked'.",
                nontrivial: "an extreme operand.",
                strategy: Some(gen_cli),
                fixed: None,
                fixed_exhaustive: false,
                check: check_cli,
                quick: 2_000,
                thorough: 40_000,
                small_stack: false,
            },
        ],
        assumptions: vec![
            "a 2 MiB stack (Rust's default for spawned threads) is what 'does not overflow the stack' is measured against",
            "a case is a hang when it burns more than 20 s of CPU although the reference model evaluates it within 2*10^5 steps (typical cost 25 us)",
            "documents deeper than 128 levels cannot be delivered by the text interfaces and are outside the property",
            "U12: -h / -V / --help / --version as rule text are option syntax",
        ],
    }
}
