//! C05 - if / ?: / and / or select and evaluate only the deciding operands.

use super::common::*;
use crate::cli;
use crate::gen::{self, rules};
use crate::model::{self, Res};
use crate::runner::{Obs, Property, Sub};
use proptest::collection::vec;
use proptest::prelude::*;
use proptest::sample::select;
use serde_json::{json, Map, Value};

/// Literals of both truthiness classes (incl. the C06 corner values) that are never operations.
fn decision_literals() -> gen::VS {
    prop_oneof![
        select(vec![
            json!(true), json!(false), Value::Null, json!(0), json!(1), json!(""), json!("0"), json!("a"), json!([]), json!([0]), json!([[]]), json!({}), json!({"a": 0}), json!(-1), json!(" "),
            json!("false"), json!([null]), json!(0.0), json!(2.5), json!("b"), json!(7), json!([1, 2]),
        ]),
        // multi-key object literals that carry members named after the control operators: values, not nested chains
        select(vec![
            json!({"or": [0, ""], "label": "x"}), json!({"and": [1, 0], "else": [2]}), json!({"if": [true, 1, 2], "z": 1}), json!({"or": [{"+": ["x"]}], "k": 1}), json!({"and": [{"log": "IN-LITERAL"}], "or": [1]}),
            json!({"?:": [1, 2, 3], "if": [0]}), json!({"or": [], "and": []}),
        ]),
        // the shapes other languages give a conditional: named branches, clause pairs, case tables - plain literals here
        select(vec![
            json!({"if": 0, "then": "yes", "else": "no"}), json!({"if": {"var": "a"}, "then": {"log": "IN-LITERAL"}}), json!({"if": {"==": [1]}, "then": {"in": "x"}, "else": {"substr": []}}), json!({"cond": 1, "then": 2, "else": 3}),
            json!({"when": true, "then": 1}), json!({"case": 1, "default": 2}), json!([[0, "a"], [1, "b"]]), json!([0, "a"]), json!([1, {"log": "IN-CLAUSE"}]), json!([[1, {"+": ["x"]}]]), json!([true, "yes"]),
        ]),
        // array literals holding constant operations: written in the rule, yet values - never evaluated or folded
        select(vec![json!([{"+": [1, 2]}]), json!([[{"==": [1, 1]}]]), json!([0, {"cat": ["a", "b"]}]), json!([{"!": [true]}, {"merge": [[1], [2]]}]), json!([{"log": "IN-ARRAY"}]), json!([{"+": ["x"]}])]),
        Just(gen::f(-0.0)),
        Just(gen::f(1e-320)),
    ]
    .boxed()
}

/// Operands whose evaluation is observable: tracing (`log` of a truthy or falsy value), always erroring, or statically malformed.
fn observable() -> gen::VS {
    prop_oneof![
        4 => (0u8..6).prop_map(|i| json!({"log": format!("P{}", i)})),
        2 => select(vec![json!({"log": 0}), json!({"log": ""}), json!({"log": [[]]}), json!({"log": false}), json!({"log": [null]}), json!({"log": {"var": "a"}}), json!({"log": {"var": "f"}})]),
        4 => (0u8..4).prop_map(|i| json!({"+": [format!("x{}", i)]})),
        1 => select(vec![json!({"==": [1]}), json!({"/": [1]}), json!({"<": 3}), json!({"var": [1, 2, 3]}), json!({"substr": ["abc"]}), json!({"log": []}), json!({"and": []}), json!({"reduce": [1]}), json!({"map": [[1]]})]),
    ]
    .boxed()
}

const DATA_KEYS: &[&str] = &["a", "f", "t", "z", "n", "e", "o"];

fn c05_data() -> gen::VS {
    // a: truthy, f: falsy ... plus a free part
    (decision_literals(), decision_literals()).prop_map(|(x, y)| json!({"a": "A", "f": 0, "t": true, "z": "", "n": null, "e": [], "o": {}, "x": x, "y": y})).boxed()
}

fn control_expr() -> gen::VS {
    let leaf: gen::VS = prop_oneof![
        5 => decision_literals(),
        3 => select(DATA_KEYS.to_vec()).prop_map(|k| json!({"var": k})),
        1 => select(vec!["x", "y", "nope"]).prop_map(|k| json!({"var": k})),
        // var with a default that is itself an expression (falsy / truthy / erroring), key present or missing
        2 => (select(vec!["nope", "missing", "a", "f", "n"]), select(vec![json!({"var": "f"}), json!({"var": "z"}), json!({"var": "a"}), json!({"var": "e"}), json!({"!": [true]}), json!({"cat": []}), json!({"+": [0]}), json!({"merge": []}), json!(0), json!("d"), json!({"/": [1, 0, 0]}), json!({"+": ["x9"]})])).prop_map(|(k, d)| json!({"var": [k, d]})),
        4 => observable(),
    ]
    .boxed();
    leaf.prop_recursive(3, 24, 7, |inner| {
        prop_oneof![
            3 => vec(inner.clone(), 0..=7).prop_map(|v| json!({"if": v})),
            2 => vec(inner.clone(), 0..=7).prop_map(|v| json!({"?:": v})),
            2 => vec(inner.clone(), 1..=7).prop_map(|v| json!({"and": v})),
            2 => vec(inner.clone(), 1..=7).prop_map(|v| json!({"or": v})),
            1 => inner.clone().prop_map(|v| json!({"!": [v]})),
            1 => inner.clone().prop_map(|v| json!({"log": [v]})),
        ]
        .boxed()
    })
    .boxed()
}

fn rooted_control() -> gen::VS {
    let inner = control_expr();
    prop_oneof![
        3 => vec(inner.clone(), 0..=7).prop_map(|v| json!({"if": v})),
        2 => vec(inner.clone(), 0..=7).prop_map(|v| json!({"?:": v})),
        2 => vec(inner.clone(), 1..=7).prop_map(|v| json!({"and": v})),
        2 => vec(inner.clone(), 1..=7).prop_map(|v| json!({"or": v})),
        1 => vec(inner.clone(), 0..=2).prop_map(|v| json!({"and": v})),
        1 => inner.clone().prop_map(|v| json!({"if": v})),
        1 => inner.prop_map(|v| json!({"or": v})),
    ]
    .boxed()
}

/// swap `if` and `?:` everywhere (the exact-alias law)
fn swap_alias(v: &Value) -> Value {
    match v {
        Value::Array(a) => Value::Array(a.iter().map(swap_alias).collect()),
        Value::Object(o) => {
            let mut m = Map::new();
            for (k, x) in o {
                let nk = if o.len() == 1 && k == "if" {
                    "?:".to_string()
                } else if o.len() == 1 && k == "?:" {
                    "if".to_string()
                } else {
                    k.clone()
                };
                m.insert(nk, swap_alias(x));
            }
            Value::Object(m)
        }
        other => other.clone(),
    }
}

fn classify(d: &Diff, rule: &Value, obs: &mut Obs) {
    let root = model::eval::as_operation(rule).map(|x| x.0).unwrap_or("?");
    if !(d.model.is_ok() || d.model.is_err()) {
        obs.class("unspecified");
        return;
    }
    if d.ctx.skipped_poison > 0 {
        obs.nt(&format!("{}: poisoned operand must not be evaluated", root));
    } else if d.ctx.skipped > 0 {
        obs.nt(&format!("{}: operands after the decision skipped", root));
    } else if d.model == Res::Ok(Value::Null) && (root == "if" || root == "?:") {
        obs.nt(&format!("{}: falls through to null", root));
    } else if d.model.is_err() {
        obs.nt(&format!("{}: error reached", root));
    } else {
        obs.class(&format!("{}: everything evaluated", root));
    }
}

fn check_control(case: &Value, obs: &mut Obs) -> Result<(), String> {
    let (rule, data) = (rule_of(case), data_of(case));
    let d = diff(rule, data, obs, TraceMode::Exact)?;
    classify(&d, rule, obs);
    // ?: is an exact alias of if: same outcome and same trace on identical operands
    let swapped = swap_alias(rule);
    if &swapped != rule && !matches!(d.model, Res::Unspec("over_budget")) {
        let t = crate::imp::apply_traced(&swapped, data);
        obs.evals += 1;
        sanity(&t, &swapped, data)?;
        let same = match (&d.out, &t.out) {
            (crate::imp::Out::Ok(a), crate::imp::Out::Ok(b)) => model::identical(a, b) && d.lines == t.lines,
            (crate::imp::Out::Err(_), crate::imp::Out::Err(_)) => true,
            _ => false,
        };
        if !same {
            return Err(format!("?: is not an exact alias of if: {} -> {} {:?} but {} -> {} {:?} on data {}", rule, d.out.short(), d.lines, swapped, t.out.short(), t.lines, data));
        }
    }
    Ok(())
}

fn gen_control() -> BoxedStrategy<Value> {
    gen::case2(rooted_control(), c05_data())
}

/// Mixed with the other operators: control flow whose operands are arbitrary expressions (trace as multiset, U13).
fn check_mixed(case: &Value, obs: &mut Obs) -> Result<(), String> {
    let (rule, data) = (rule_of(case), data_of(case));
    let d = diff(rule, data, obs, TraceMode::Multiset)?;
    classify(&d, rule, obs);
    Ok(())
}

/// control flow as the element expression / predicate of a higher-order operator: the decision is taken afresh for every
/// element (elements differ in which keys they have and in the truthiness of their values)
fn gen_per_element() -> BoxedStrategy<Value> {
    let leaf: gen::VS = prop_oneof![
        2 => Just(json!({"missing": ["a"]})),
        1 => Just(json!({"missing": ["a", "b"]})),
        1 => Just(json!({"missing_some": [1, ["a", "b"]]})),
        2 => Just(json!({"var": "a"})),
        1 => Just(json!({"var": "b"})),
        1 => Just(json!({"!": [{"var": "a"}]})),
        2 => select(vec![json!("T"), json!("F"), json!(0), json!(""), json!([]), json!("incomplete"), json!("ok")]),
        1 => observable(),
    ]
    .boxed();
    let ctrl = leaf.prop_recursive(2, 12, 4, |inner| {
        prop_oneof![
            3 => vec(inner.clone(), 1..=5).prop_map(|v| json!({"if": v})),
            1 => vec(inner.clone(), 1..=5).prop_map(|v| json!({"?:": v})),
            2 => vec(inner.clone(), 1..=3).prop_map(|v| json!({"and": v})),
            2 => vec(inner, 1..=3).prop_map(|v| json!({"or": v})),
        ]
        .boxed()
    });
    let rows = vec(select(vec![json!({"a": 1}), json!({"b": 2}), json!({"a": 3, "b": 4}), json!({}), json!({"a": 0}), json!({"a": null, "b": ""}), json!({"a": "x"}), json!({"b": []})]), 2..=5);
    (select(vec!["map", "filter", "all", "some", "none", "reduce"]), ctrl, rows, any::<bool>())
        .prop_map(|(op, c, rows, wrap)| {
            let c = if wrap { json!({"cat": [c]}) } else { c };
            let rule = match op {
                "reduce" => json!({"map": [{"var": "rows"}, {"reduce": [[1], c, 0]}]}),
                _ => op2(op, &json!({"var": "rows"}), &c),
            };
            json!({"rule": rule, "data": {"rows": rows}})
        })
        .boxed()
}

fn gen_mixed() -> BoxedStrategy<Value> {
    let cfg = rules::Cfg::new(&["if", "?:", "and", "or", "if", "and", "or", "==", "+", "cat", "var", "!", "map", "filter", "log", "<", "missing", "missing_some"]).poison(3).bad_arity(30);
    let inner = rules::expr(cfg.clone());
    let root = prop_oneof![
        vec(inner.clone(), 0..=7).prop_map(|v| json!({"if": v})),
        vec(inner.clone(), 0..=7).prop_map(|v| json!({"?:": v})),
        vec(inner.clone(), 1..=7).prop_map(|v| json!({"and": v})),
        vec(inner, 1..=7).prop_map(|v| json!({"or": v})),
    ];
    gen::case2(root.boxed(), gen::data_docs())
}

/// The same semantics observed from a real process: stdout = log lines then the result line.
fn check_cli(case: &Value, obs: &mut Obs) -> Result<(), String> {
    let (rule, data) = match (via_text(rule_of(case)), via_text(data_of(case))) {
        (Some(r), Some(d)) => (r, d),
        _ => {
            obs.skip("text-unstable-float");
            return Ok(());
        }
    };
    let (rule, data) = (&rule, &data);
    let (m, ctx) = model::eval(rule, data);
    let profile = if case["release"].as_bool().unwrap_or(false) { "release" } else { "dev" };
    let bin = match cli::bin(profile) {
        Some(b) => b,
        None => return Err("oracle_broken: CLI binary missing (JLV_CLI_DEV / JLV_CLI_RELEASE)".into()),
    };
    let out = cli::run(&bin, &rule.to_string(), &cli::Channel::Arg(data.to_string()))?;
    obs.evals += 1;
    if out.timed_out {
        return Err(format!("the jsonlogic command did not finish within 180 s (after a first attempt exceeded 30 s) for {}", fmt_case(rule, data)));
    }
    let stdout = String::from_utf8_lossy(&out.stdout).to_string();
    match &m {
        Res::Ok(v) => {
            let mut want: String = ctx.trace.iter().map(|l| format!("{}\n", l)).collect();
            // the result line is whatever the library prints for the value; compare parsed
            let lines: Vec<&str> = stdout.split_terminator('\n').collect();
            if out.code != Some(0) {
                return Err(format!("CLI exit {:?} (stderr {:?}) but the model says Ok({}) for {}", out.code, String::from_utf8_lossy(&out.stderr), v, fmt_case(rule, data)));
            }
            if lines.len() != ctx.trace.len() + 1 {
                return Err(format!("CLI printed {} lines, expected {} log lines + 1 result line, for {}: {:?}", lines.len(), ctx.trace.len(), fmt_case(rule, data), stdout));
            }
            want.push_str(lines[lines.len() - 1]);
            want.push('\n');
            if want != stdout {
                return Err(format!("CLI stdout {:?} differs from log lines {:?} + result for {}", stdout, ctx.trace, fmt_case(rule, data)));
            }
            let parsed: Result<Value, _> = serde_json::from_str(lines[lines.len() - 1]);
            match parsed {
                Ok(p) if model::values_match(v, &p) => {}
                other => return Err(format!("CLI result line {:?} ({:?}) is not {} for {}", lines[lines.len() - 1], other.map(|x| x.to_string()), v, fmt_case(rule, data))),
            }
            if ctx.skipped_poison > 0 {
                obs.nt("cli: poisoned operand not evaluated");
            } else if !ctx.trace.is_empty() {
                obs.nt("cli: log lines before the result");
            } else {
                obs.class("cli: plain");
            }
        }
        Res::Err => {
            if out.code == Some(0) || out.code.is_none() || out.code == Some(101) {
                return Err(format!("CLI exit {:?} but the model says Err for {}", out.code, fmt_case(rule, data)));
            }
            obs.nt("cli: error reached");
        }
        Res::Unspec(z) => obs.skip(z),
    }
    Ok(())
}

fn gen_cli() -> BoxedStrategy<Value> {
    (rooted_control(), c05_data(), any::<bool>()).prop_map(|(r, d, rel)| json!({"rule": r, "data": d, "release": rel})).boxed()
}

pub fn property() -> Property {
    Property {
        id: "C05",
        subs: vec![
            Sub {
                name: "control_exact",
                about: "generated if / ?: / and / or operand lists of length 0..7 (and / or 1..7) nested to depth 3, whose operands are literals of both truthiness classes, data references, logging operands (truthy and falsy values), always-erroring and statically malformed operands; model value (the operand value itself) and the exact order of log lines; ?: swapped with if everywhere must give the identical outcome and trace.",
                nontrivial: "a poisoned operand sits where it must not be evaluated, or operands after the deciding one exist, or an else-less chain falls through to null, or an error is reached.",
                strategy: Some(gen_control),
                fixed: None,
                fixed_exhaustive: false,
                check: check_control,
                quick: 250_000,
                thorough: 12_000_000,
                small_stack: false,
            },
            Sub {
                name: "control_mixed",
                about: "control flow over arbitrary operand expressions of the other operators (poison weight raised, 3% wrong arities), value and log multiset against the model.",
                nontrivial: "as control_exact.",
                strategy: Some(gen_mixed),
                fixed: None,
                fixed_exhaustive: false,
                check: check_mixed,
                quick: 100_000,
                thorough: 5_000_000,
                small_stack: false,
            },
            Sub {
                name: "control_per_element",
                about: "if / ?: / and / or (nested to depth 2) as the element expression or predicate of map / filter / all / some / none over 2-5 elements that differ in which keys they carry; the conditions see the element only through var, missing or missing_some; value and log multiset against the model: the decision is taken afresh for every element.",
                nontrivial: "as control_exact.",
                strategy: Some(gen_per_element),
                fixed: None,
                fixed_exhaustive: false,
                check: check_mixed,
                quick: 60_000,
                thorough: 3_000_000,
                small_stack: false,
            },
            Sub {
                name: "cli",
                about: "the same generated control-flow rules run through the real jsonlogic binary (dev and release): stdout must be exactly the model's log lines followed by one result line, exit 0; errors exit non-zero.",
                nontrivial: "log lines precede the result, a poisoned operand is skipped, or an error is reached.",
                strategy: Some(gen_cli),
                fixed: None,
                fixed_exhaustive: false,
                check: check_cli,
                quick: 2_000,
                thorough: 40_000,
                small_stack: false,
            },
        ],
        assumptions: vec!["U6: the log lines of an evaluation that ends in an error are not compared", "U13: exact log order is asserted only inside if/?:/and/or chains"],
    }
}
