//! C15 - merge flattens exactly one level; in is substring / deep-membership.

use super::common::*;
use crate::gen::{self, rules};
use crate::model::{self, Res};
use crate::runner::{Obs, Property, Sub};
use proptest::collection::vec;
use proptest::prelude::*;
use serde_json::{json, Map, Value};

fn check_merge(case: &Value, obs: &mut Obs) -> Result<(), String> {
    let items: Vec<Value> = case["items"].as_array().cloned().unwrap_or_default();
    let refs: Vec<Value> = (0..items.len()).map(|i| json!({"var": i})).collect();
    let data = Value::Array(items.clone());
    let d = diff(&opn("merge", &refs), &data, obs, TraceMode::None)?;
    let out = match &d.out {
        crate::imp::Out::Ok(Value::Array(a)) => a.clone(),
        other => return Err(format!("merge did not return an array for operands {}: {}", data, other.short())),
    };
    // model-free laws: length, order, inner arrays intact
    let want_len: usize = items.iter().map(|v| v.as_array().map(|a| a.len()).unwrap_or(1)).sum();
    if out.len() != want_len {
        return Err(format!("merge of {} has length {} but sum(array lengths) + #non-arrays = {}", data, out.len(), want_len));
    }
    let mut k = 0;
    for it in &items {
        match it {
            Value::Array(a) => {
                for e in a {
                    if !model::identical(e, &out[k]) {
                        return Err(format!("merge of {}: element {} is {} but should be the operand's element {}", data, k, out[k], e));
                    }
                    k += 1;
                }
            }
            other => {
                if !model::identical(other, &out[k]) {
                    return Err(format!("merge of {}: element {} is {} but should be the operand {}", data, k, out[k], other));
                }
                k += 1;
            }
        }
    }
    if items.iter().all(|o| model::eval::as_operation(o).is_none()) {
        diff(&opn("merge", &items), &Value::Null, obs, TraceMode::None)?;
    }
    // bracket-less single operand
    if items.len() == 1 {
        let bare = op_raw("merge", json!({"var": 0}));
        diff(&bare, &data, obs, TraceMode::None)?;
    }
    let nested = items.iter().any(|v| v.as_array().map(|a| a.iter().any(|e| e.is_array())).unwrap_or(false));
    let scalars = items.iter().any(|v| !v.is_array());
    if nested && scalars {
        obs.nt("nested arrays mixed with scalars");
    } else if nested {
        obs.nt(if items.len() == 1 { "single operand holding nested arrays" } else { "nested arrays" });
    } else if items.iter().any(|v| v.is_null() || v.as_array().map(|a| a.is_empty()).unwrap_or(false)) {
        obs.nt("null / empty operands");
    } else {
        obs.class("flat");
    }
    Ok(())
}

fn nested_arrays() -> gen::VS {
    gen::scalars()
        .prop_recursive(3, 12, 3, |inner| vec(inner, 0..=3).prop_map(Value::Array).boxed())
        .boxed()
}

fn gen_merge() -> BoxedStrategy<Value> {
    vec(prop_oneof![3 => nested_arrays(), 2 => gen::values(), 1 => Just(Value::Null), 1 => Just(json!([])), 1 => Just(json!([[]]))], 0..=5).prop_map(|items| json!({"items": items})).boxed()
}

/// Re-spell a value without changing what it denotes: 1 <-> 1.0, 0 <-> -0.0, object key order is irrelevant anyway.
fn respell(v: &Value, flip: bool) -> Value {
    match v {
        Value::Number(n) => {
            let x = n.as_f64().unwrap_or(0.0);
            if n.is_f64() {
                if x.fract() == 0.0 && x.abs() < 9.0e15 && flip {
                    if x == 0.0 {
                        json!(0)
                    } else {
                        json!(x as i64)
                    }
                } else {
                    v.clone()
                }
            } else if x.abs() < 9.0e15 && flip {
                if x == 0.0 {
                    gen::f(-0.0)
                } else {
                    gen::f(x)
                }
            } else {
                v.clone()
            }
        }
        Value::Array(a) => Value::Array(a.iter().map(|e| respell(e, flip)).collect()),
        Value::Object(o) => {
            let mut m = Map::new();
            for (k, e) in o.iter().rev() {
                m.insert(k.clone(), respell(e, flip));
            }
            Value::Object(m)
        }
        other => other.clone(),
    }
}

fn has_number(v: &Value) -> bool {
    match v {
        Value::Number(_) => true,
        Value::Array(a) => a.iter().any(has_number),
        Value::Object(o) => o.values().any(has_number),
        _ => false,
    }
}

fn check_in(case: &Value, obs: &mut Obs) -> Result<(), String> {
    let (needle, hay) = (&case["needle"], &case["hay"]);
    let data = json!({"n": needle, "h": hay});
    let rule = op2("in", &json!({"var": "n"}), &json!({"var": "h"}));
    let d = diff(&rule, &data, obs, TraceMode::None)?;
    if model::eval::as_operation(needle).is_none() && model::eval::as_operation(hay).is_none() {
        diff(&op2("in", needle, hay), &Value::Null, obs, TraceMode::None)?;
    }
    let kind = case["kind"].as_str().unwrap_or("");
    match hay {
        Value::Array(_) => {
            let nested = matches!(needle, Value::Array(_) | Value::Object(_));
            if kind == "respelled" && has_number(needle) {
                obs.nt(if nested { "re-spelled number inside a container needle" } else { "re-spelled number needle" });
            } else if kind == "perturbed" {
                obs.nt(if nested { "near-miss container needle" } else { "near-miss needle" });
            } else if nested {
                obs.nt("container needle");
            } else {
                obs.class("scalar needle in array");
            }
        }
        Value::String(h) => {
            if !needle.is_string() {
                obs.nt("non-string needle in string (error)");
            } else if !h.is_ascii() || !needle.as_str().unwrap_or("").is_ascii() {
                obs.nt("non-ASCII substring test");
            } else {
                obs.class("ascii substring test");
            }
        }
        Value::Null => obs.nt("null haystack"),
        _ => obs.nt("invalid haystack (error)"),
    }
    let _ = d;
    Ok(())
}

fn perturb(v: &Value, how: u8) -> Value {
    match v {
        Value::Number(n) => {
            let x = n.as_f64().unwrap_or(0.0);
            match how % 4 {
                0 => gen::f(x + 1.0),
                // the adjacent double / the smallest non-zero numbers: different numbers, however close
                1 => gen::f(if x == 0.0 { 5e-324 } else { f64::from_bits(x.to_bits() + 1) }),
                2 => gen::f(if x == 0.0 { 1e-17 } else { x * (1.0 - f64::EPSILON / 2.0) }),
                _ => gen::f(if x == 0.0 { -1e-30 } else { f64::from_bits(x.to_bits().wrapping_sub(1)) }),
            }
        }
        Value::String(s) => Value::String(format!("{}x", s)),
        Value::Bool(b) => Value::Bool(!b),
        Value::Null => json!(0),
        Value::Array(a) => {
            let mut b = a.clone();
            if let Some(last) = b.pop() {
                b.push(perturb(&last, how));
            } else {
                b.push(Value::Null);
            }
            Value::Array(b)
        }
        Value::Object(o) => {
            // one more key, one fewer key, a renamed key (same count; the original key now absent, the new one null
            // or copied), or a changed member
            let mut m = o.clone();
            if m.is_empty() {
                m.insert("k".into(), json!(1));
            } else if how % 3 == 1 {
                let k = m.keys().next().cloned().unwrap();
                let old = m.remove(&k).unwrap();
                m.insert(format!("{}~renamed", k), if how % 2 == 0 { Value::Null } else { old });
            } else if how % 3 == 2 {
                let k = m.keys().last().cloned().unwrap();
                let old = m[&k].clone();
                m.insert(k, perturb(&old, how / 3));
            } else if m.len() % 2 == 0 {
                let k = m.keys().next().cloned().unwrap();
                m.remove(&k);
            } else {
                m.insert("zz-extra".into(), json!(2));
            }
            Value::Object(m)
        }
    }
}

fn gen_in() -> BoxedStrategy<Value> {
    let elements = prop_oneof![4 => gen::scalars(), 2 => nested_arrays(), 2 => gen::object_of(gen::plain_values(), 3), 1 => gen::values()];
    let array_cases = (vec(elements, 0..=5), any::<u16>(), 0u8..7, any::<bool>(), gen::values()).prop_map(|(items, pick, mode, flip, other)| {
        if items.is_empty() {
            return json!({"needle": other, "hay": items, "kind": "independent"});
        }
        let e = items[gen::pick(pick, items.len())].clone();
        match mode {
            0 => json!({"needle": other, "hay": items, "kind": "independent"}),
            1 => json!({"needle": e, "hay": items, "kind": "member"}),
            2 | 3 => json!({"needle": respell(&e, flip), "hay": items, "kind": "respelled"}),
            4 => {
                // the haystack holds only a near miss of the needle
                let mut hay = items.clone();
                let i = gen::pick(pick, hay.len());
                hay[i] = perturb(&e, (pick >> 5) as u8);
                let still = hay.iter().any(|h| crate::model::coerce::deep_eq(h, &e) != crate::model::coerce::Tri::False);
                json!({"needle": e, "hay": hay, "kind": if still { "member" } else { "perturbed" }})
            }
            _ => json!({"needle": perturb(&e, (pick >> 3) as u8), "hay": items, "kind": "perturbed"}),
        }
    });
    let string_cases = (gen::texts(8), any::<u16>(), any::<u16>(), 0u8..5, gen::values()).prop_map(|(h, a, b, mode, other)| {
        let chars: Vec<char> = h.chars().collect();
        let i = gen::pick(a, chars.len() + 1);
        let k = i + gen::pick(b, chars.len() + 1 - i);
        let sub: String = chars[i..k].iter().collect();
        match mode {
            0 | 1 => json!({"needle": sub, "hay": h, "kind": "substring"}),
            2 => json!({"needle": format!("{}\u{00e9}", sub), "hay": h, "kind": "non-substring"}),
            3 => json!({"needle": sub.chars().rev().collect::<String>(), "hay": h, "kind": "reversed"}),
            _ => json!({"needle": other, "hay": h, "kind": "independent"}),
        }
    });
    let long_cases = (gen::long_texts(), 0u8..4).prop_map(|(t, m)| match m {
        0 => json!({"needle": "é", "hay": {"k": t}, "kind": "independent"}),
        1 => json!({"needle": {"k": t}, "hay": "haystack", "kind": "independent"}),
        2 => json!({"needle": t.chars().take(3).collect::<String>(), "hay": t, "kind": "substring"}),
        _ => json!({"needle": [t], "hay": 5, "kind": "independent"}),
    });
    let other_cases = (gen::values(), prop_oneof![Just(Value::Null), gen::numbers(), Just(json!(true)), gen::inert_objects()]).prop_map(|(n, h)| json!({"needle": n, "hay": h, "kind": "independent"}));
    prop_oneof![12 => array_cases, 6 => string_cases, 2 => other_cases, 1 => long_cases].boxed()
}

fn check_rules(case: &Value, obs: &mut Obs) -> Result<(), String> {
    let d = diff(rule_of(case), data_of(case), obs, TraceMode::Multiset)?;
    if matches!(d.model, Res::Ok(_) | Res::Err) {
        obs.nt("nested merge/in rule");
    }
    Ok(())
}

fn gen_rules() -> BoxedStrategy<Value> {
    let cfg = rules::Cfg::new(&["merge", "in", "merge", "in", "var", "if", "cat", "map"]).poison(0).bad_arity(10);
    gen::case2(rules::rooted(cfg), gen::data_docs())
}


/// accumulated state: see common::sweep
fn sweep_item(kind: u64, k: usize) -> (Value, Value) {
    match kind % 2 {
        0 => (json!({"in": [format!("n{}", k), {"var": "h"}]}), json!({"h": [format!("n{}", k + (k % 3 == 0) as usize), "x"]})),
        _ => (json!({"merge": [[k], format!("s{}", k), [[k]]]}), Value::Null),
    }
}

fn check_state_sweep(case: &Value, obs: &mut Obs) -> Result<(), String> {
    let w = case["w"].as_u64().unwrap_or(1) as usize;
    let kind = case["kind"].as_u64().unwrap_or(0);
    sweep(w, &|k| sweep_item(kind, k), obs)?;
    obs.nt(&format!("sweep kind {} W {}", kind, if w < 64 { "<64" } else if w < 128 { "64-127" } else { "128+" }));
    Ok(())
}

fn fixed_state_sweeps() -> Vec<Value> {
    sweep_cases(2, 300)
}


fn gen_per_element() -> BoxedStrategy<Value> {
    let cfg = rules::Cfg::new(&["merge", "in", "merge", "in", "var", "if", "cat"]).poison(0).bad_arity(0);
    per_element_cases(rules::rooted(cfg), gen::data_docs())
}


const KINDS: u64 = 6;
fn check_sizes(case: &Value, obs: &mut Obs) -> Result<(), String> {
    let n = case["n"].as_u64().unwrap_or(1) as usize;
    let k = case["k"].as_u64().unwrap_or(0);
    let arr = sized_array(n);
    let data = json!({"xs": arr, "s": sized_string(n)});
    let (rule, data) = match k {
        0 => (json!({"merge": arr}), Value::Null),
        1 => (json!({"merge": [{"var": "xs"}, [{"var": "xs"}]]}), data),
        2 => (json!({"merge": [{"var": "xs"}, 7, {"var": "xs"}]}), data),
        3 => (json!({"in": [1000, {"var": "xs"}]}), data),
        4 => (json!({"in": [1001, {"var": "xs"}]}), data),
        _ => (json!({"in": ["Z", {"var": "s"}]}), data),
    };
    size_case(&rule, &data, obs, &format!("size kind {} n {}", k, if n < 1000 { "~2^8" } else if n < 10000 { "~2^12" } else { "~2^16" }))
}

fn fixed_sizes() -> Vec<Value> {
    let mut out = vec![];
    for n in SIZE_EDGES {
        for k in 0..KINDS {
            out.push(json!({"n": n, "k": k}));
        }
    }
    out
}

pub fn property() -> Property {
    Property {
        id: "C15",
        subs: vec![
            Sub {
                name: "size_boundaries",
                about: "arrays and strings of exactly 255 ... 65537 elements / characters: merge of n operands, of an n-array beside a nested one, of two n-arrays around a scalar (length law), in with the needle last / absent in an n-array and at the end of an n-character string, against the reference model.",
                nontrivial: "every case.",
                strategy: None,
                fixed: Some(fixed_sizes),
                fixed_exhaustive: true,
                check: check_sizes,
                quick: 0,
                thorough: 0,
                small_stack: false,
            },
            Sub {
                name: "fuzz_corpus_replay",
                about: "every committed corpus input and saved artifact of the libFuzzer target fz_coll - one application of in / merge whose operands are written by the fuzzer as text lines (a line that parses as JSON is that value, any other line is a raw string such as ` 0x1F ` or `12px`; operands literal or through var) - replayed through the target's own body against the reference model; the committed corpus is the coverage-distinct set distilled from campaigns on the unchanged tree, so each input reaches a different piece of the implementation. The thorough tier additionally runs the coverage-guided campaign.",
                nontrivial: "the decoded rule is evaluated and the model determines the outcome.",
                strategy: None,
                fixed: Some(|| fuzz_corpus_cases("fz_coll")),
                fixed_exhaustive: false,
                check: check_fuzz_case,
                quick: 0,
                thorough: 0,
                small_stack: false,
            },
            Sub {
                name: "per_element",
                about: "this property's operators inside an expression used as the body of map / filter / all / some / none over 2-5 different elements: element by element the outcome must be what the expression gives on that element alone (model-free per-element law); catches anything the shared evaluation machinery remembers from one element to the next.",
                nontrivial: "the expression gives different results on different elements.",
                strategy: Some(gen_per_element),
                fixed: None,
                fixed_exhaustive: false,
                check: per_element_law,
                quick: 40_000,
                thorough: 2_000_000,
                small_stack: false,
            },
            Sub {
                name: "state_sweep",
                about: "accumulated state: for every W in 1..300 and each kind of keyed work of this operator family (distinct needles in data haystacks, distinct merges), W hot items are evaluated twice, then a new item, the hot set again, another new item, and everything in reverse; every call against the reference model - a cache, pool or table with any capacity up to 300 is driven exactly over its boundary.",
                nontrivial: "every case.",
                strategy: None,
                fixed: Some(fixed_state_sweeps),
                fixed_exhaustive: false,
                check: check_state_sweep,
                quick: 0,
                thorough: 0,
                small_stack: false,
            },
            Sub {
                name: "merge",
                about: "generated operand lists (arrays nested 0-3 deep, scalars, null, empties, operation-shaped values as data): model, and model-free laws length = sum(array lengths) + #non-arrays, order preserved, inner arrays and spellings intact; literal, var and bracket-less routes.",
                nontrivial: "nested arrays (alone, mixed with scalars, or as the single operand) or null / empty operands.",
                strategy: Some(gen_merge),
                fixed: None,
                fixed_exhaustive: false,
                check: check_merge,
                quick: 150_000,
                thorough: 8_000_000,
                small_stack: false,
            },
            Sub {
                name: "in",
                about: "generated (needle, haystack): array haystacks with the needle picked from them and re-spelled (1 <-> 1.0, 0 <-> -0.0, object keys reordered, at any depth) or perturbed (value changed, key added / removed); string haystacks with substrings by construction, non-substrings, non-string needles; null and invalid haystacks; against the model, literal and var routes.",
                nontrivial: "re-spelled or near-miss needle, container needle, non-ASCII substring test, null or invalid haystack.",
                strategy: Some(gen_in),
                fixed: None,
                fixed_exhaustive: false,
                check: check_in,
                quick: 200_000,
                thorough: 10_000_000,
                small_stack: false,
            },
            Sub {
                name: "rules_model",
                about: "generated nested rules over merge in var if cat map against the model.",
                nontrivial: "the model determines a value or an error.",
                strategy: Some(gen_rules),
                fixed: None,
                fixed_exhaustive: false,
                check: check_rules,
                quick: 60_000,
                thorough: 3_000_000,
                small_stack: false,
            },
        ],
        assumptions: vec!["U1: in on numbers whose doubles agree but whose exact integer values differ is not determined"],
    }
}
