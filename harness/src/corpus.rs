//! Ground truth recorded once from a real JavaScript engine (DESIGN.md section 4) and the repository's own examples.

use serde_json::Value;
use std::path::{Path, PathBuf};

pub fn root() -> PathBuf {
    PathBuf::from(std::env::var("JLV_ROOT").unwrap_or_else(|_| "/verif".to_string()))
}

pub fn bits(hex: &str) -> f64 {
    f64::from_bits(u64::from_str_radix(hex, 16).unwrap_or(0x7ff8000000000000))
}

pub struct ToNumberRow {
    pub s: String,
    pub number: f64,
    pub parse_float: f64,
}

pub fn load_tonumber(root: &Path) -> Result<Vec<ToNumberRow>, String> {
    let text = std::fs::read_to_string(root.join("corpus/js_tonumber.jsonl")).map_err(|e| format!("corpus/js_tonumber.jsonl: {}", e))?;
    let mut out = vec![];
    for line in text.lines() {
        if line.is_empty() {
            continue;
        }
        let v: Value = serde_json::from_str(line).map_err(|e| format!("js_tonumber: {}", e))?;
        out.push(ToNumberRow { s: v["s"].as_str().unwrap_or("").to_string(), number: bits(v["n"].as_str().unwrap_or("")), parse_float: bits(v["p"].as_str().unwrap_or("")) });
    }
    Ok(out)
}

pub struct PairRow {
    pub a: Value,
    pub b: Value,
    pub eq: bool,
    pub seq: bool,
    /// None where UTF-16 order and code point order differ
    pub lt: Option<bool>,
    pub le: Option<bool>,
    pub gt: Option<bool>,
    pub ge: Option<bool>,
}

pub fn load_pairs(root: &Path) -> Result<Vec<PairRow>, String> {
    let text = std::fs::read_to_string(root.join("corpus/js_truth_pairs.jsonl")).map_err(|e| format!("corpus/js_truth_pairs.jsonl: {}", e))?;
    let mut out = vec![];
    for line in text.lines() {
        if line.is_empty() {
            continue;
        }
        let v: Value = serde_json::from_str(line).map_err(|e| format!("js_truth_pairs: {}", e))?;
        let parse = |k: &str| -> Result<Value, String> { serde_json::from_str(v[k].as_str().unwrap_or("null")).map_err(|e| format!("pair operand: {}", e)) };
        out.push(PairRow { a: parse("a")?, b: parse("b")?, eq: v["eq"].as_bool().unwrap_or(false), seq: v["seq"].as_bool().unwrap_or(false), lt: v["lt"].as_bool(), le: v["le"].as_bool(), gt: v["gt"].as_bool(), ge: v["ge"].as_bool() });
    }
    Ok(out)
}

pub struct FormRow {
    pub v: Value,
    pub s: String,
    pub number: f64,
    pub parse_float: f64,
}

pub fn load_forms(root: &Path) -> Result<Vec<FormRow>, String> {
    let text = std::fs::read_to_string(root.join("corpus/js_string_forms.jsonl")).map_err(|e| format!("corpus/js_string_forms.jsonl: {}", e))?;
    let mut out = vec![];
    for line in text.lines() {
        if line.is_empty() {
            continue;
        }
        let v: Value = serde_json::from_str(line).map_err(|e| format!("js_string_forms: {}", e))?;
        out.push(FormRow { v: serde_json::from_str(v["v"].as_str().unwrap_or("null")).map_err(|e| e.to_string())?, s: v["s"].as_str().unwrap_or("").to_string(), number: bits(v["n"].as_str().unwrap_or("")), parse_float: bits(v["p"].as_str().unwrap_or("")) });
    }
    Ok(out)
}

/// The repository's own (rule, data, expected) examples.
pub fn load_repo_examples() -> Result<Vec<(Value, Value, Value)>, String> {
    let p = std::env::var("JLV_REPO").unwrap_or_else(|_| "/repo".to_string());
    let text = std::fs::read_to_string(Path::new(&p).join("tests/data/tests.json")).map_err(|e| format!("tests.json: {}", e))?;
    let v: Value = serde_json::from_str(&text).map_err(|e| format!("tests.json: {}", e))?;
    let mut out = vec![];
    for item in v.as_array().ok_or("tests.json is not an array")? {
        if let Value::Array(t) = item {
            if t.len() == 3 {
                out.push((t[0].clone(), t[1].clone(), t[2].clone()));
            }
        }
    }
    Ok(out)
}

pub fn same_double(a: f64, b: f64) -> bool {
    (a.is_nan() && b.is_nan()) || a.to_bits() == b.to_bits() || (a == 0.0 && b == 0.0 && a.is_sign_negative() == b.is_sign_negative())
}
