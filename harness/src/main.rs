//! jlverif: orchestrator and worker entry points.
//!   jlverif run <Cxx> <quick|thorough>          (spawns workers, merges, writes evidence, prints the verdict)
//!   jlverif replay <Cxx> <file>                 (re-executes one saved case through the same oracle, strict)
//!   jlverif worker ...                          (internal)
//!   jlverif sample <Cxx> <sub> <n>              (print generated cases; generator inspection)

use jlverif::props;
use jlverif::runner::{self, Merged, MergedSub, WorkerArgs};
use serde_json::{json, Value};
use std::collections::BTreeMap;
use std::path::{Path, PathBuf};
use std::process::{Command, Stdio};
use std::time::Instant;

fn verif_root() -> PathBuf {
    PathBuf::from(std::env::var("JLV_ROOT").unwrap_or_else(|_| "/verif".to_string()))
}

fn seed() -> u64 {
    std::env::var("VERIF_SEED").ok().and_then(|s| s.trim().parse::<i128>().ok()).map(|v| v as u64).unwrap_or(20260926)
}

fn arg_after(args: &[String], flag: &str) -> Option<String> {
    args.iter().position(|a| a == flag).and_then(|i| args.get(i + 1).cloned())
}

fn main() {
    let args: Vec<String> = std::env::args().collect();
    let code = match args.get(1).map(|s| s.as_str()) {
        Some("run") => run(&args[2], &args[3]),
        Some("replay") => replay(&args[2], &args[3]),
        Some("worker") => worker(&args),
        Some("sample") => sample(&args[2], &args[3], args.get(4).and_then(|s| s.parse().ok()).unwrap_or(10)),
        Some("model") => {
            // debugging aid: what the reference model says about (rule file, data file), and what it cost
            let rule: serde_json::Value = serde_json::from_str(&std::fs::read_to_string(&args[2]).unwrap_or_default()).unwrap_or(serde_json::Value::Null);
            let data: serde_json::Value = args.get(3).and_then(|f| std::fs::read_to_string(f).ok()).and_then(|t| serde_json::from_str(&t).ok()).unwrap_or(serde_json::Value::Null);
            let t0 = std::time::Instant::now();
            let (m, ctx) = jlverif::model::eval(&rule, &data);
            println!("model: {:?}  steps {} nodes {} over_budget {} ({:?})", m, ctx.steps, ctx.nodes, ctx.over_budget, t0.elapsed());
            0
        }
        Some("selftest") => {
            match jlverif::selftest::run(&verif_root()) {
                Ok(n) => {
                    println!("oracle self-test ok: {}", n);
                    0
                }
                Err(e) => {
                    println!("ORACLE BROKEN: {}", e);
                    2
                }
            }
        }
        _ => {
            eprintln!("usage: jlverif run <Cxx> <quick|thorough> | replay <Cxx> <file> | sample <Cxx> <sub> [n] | selftest");
            2
        }
    };
    std::process::exit(code);
}

fn sample(prop_id: &str, sub: &str, n: usize) -> i32 {
    let prop = match props::get(prop_id) {
        Some(p) => p,
        None => return 2,
    };
    for s in &prop.subs {
        if s.name == sub {
            if let Some(st) = s.strategy {
                for c in runner::sample_strategy(st, n, seed()) {
                    println!("{}", c);
                }
            }
            if let Some(f) = s.fixed {
                let all = f();
                println!("# {} enumerated cases; first {}:", all.len(), n);
                for c in all.iter().take(n) {
                    println!("{}", c);
                }
            }
        }
    }
    0
}

fn worker(args: &[String]) -> i32 {
    let prop_id = arg_after(args, "--prop").unwrap();
    let prop = match props::get(&prop_id) {
        Some(p) => p,
        None => return 2,
    };
    let replay_file = arg_after(args, "--replay-file");
    let mut replay = vec![];
    if let Some(f) = &replay_file {
        let text = std::fs::read_to_string(f).unwrap_or_default();
        for line in text.lines() {
            if line.trim().is_empty() {
                continue;
            }
            if let Ok(v) = serde_json::from_str::<Value>(line) {
                let sub = v["sub"].as_str().unwrap_or("").to_string();
                let case = match v["case_text"].as_str() {
                    Some(t) => serde_json::from_str::<Value>(t).unwrap_or(Value::Null),
                    None => v["case"].clone(),
                };
                replay.push((sub, case));
            }
        }
        if replay.is_empty() {
            // an empty replay list must not fall through to generation
            let out_dir = PathBuf::from(arg_after(args, "--out").unwrap());
            let w = arg_after(args, "--worker").unwrap();
            let p = arg_after(args, "--profile").unwrap_or_else(|| "checked".into());
            let _ = std::fs::write(out_dir.join(format!("w{}-{}.json", w, p)), "{}");
            return 0;
        }
    }
    let wa = WorkerArgs {
        prop: prop_id.clone(),
        tier: arg_after(args, "--tier").unwrap_or_else(|| "quick".into()),
        worker: arg_after(args, "--worker").and_then(|s| s.parse().ok()).unwrap_or(0),
        of: arg_after(args, "--of").and_then(|s| s.parse().ok()).unwrap_or(1),
        seed: arg_after(args, "--seed").and_then(|s| s.parse().ok()).unwrap_or(1),
        out_dir: PathBuf::from(arg_after(args, "--out").unwrap()),
        profile: arg_after(args, "--profile").unwrap_or_else(|| "checked".into()),
        verif_root: verif_root(),
        scale: arg_after(args, "--scale").and_then(|s| s.parse().ok()).unwrap_or(1.0),
        only_sub: arg_after(args, "--sub").unwrap_or_default(),
        replay,
        strict: args.iter().any(|a| a == "--strict"),
    };
    runner::worker_main(&prop, &wa)
}

fn profile_bins() -> BTreeMap<String, PathBuf> {
    let mut m = BTreeMap::new();
    let me = std::env::current_exe().unwrap();
    let my_profile = std::env::var("JLV_PROFILE").unwrap_or_else(|_| "checked".into());
    m.insert(my_profile, me);
    if let Ok(p) = std::env::var("JLV_FAST_BIN") {
        if Path::new(&p).exists() {
            m.insert("fast".to_string(), PathBuf::from(p));
        }
    }
    m
}

struct Finding {
    sub: String,
    case_text: String,
    msg: String,
    profile: String,
}

fn run(prop_id: &str, tier: &str) -> i32 {
    let started = Instant::now();
    let root = verif_root();
    let prop = match props::get(prop_id) {
        Some(p) => p,
        None => {
            println!("unknown property {}", prop_id);
            return 2;
        }
    };
    let seed = seed();
    let out_dir = root.join("target").join("run").join(format!("{}-{}-{}", prop_id, tier, std::process::id()));
    let _ = std::fs::remove_dir_all(&out_dir);
    if std::fs::create_dir_all(&out_dir).is_err() {
        println!("cannot create {}", out_dir.display());
        return 2;
    }

    // ---- 0. oracle self-test (model vs the repository's examples and the recorded JS corpus)
    match jlverif::selftest::run(&root) {
        Ok(_) => {}
        Err(e) => {
            println!("INCONCLUSIVE: oracle self-test failed (the oracle, not the code under test, is broken): {}", e);
            return 2;
        }
    }

    let bins = profile_bins();
    let both = prop_id == "C01" || tier == "thorough";
    let mut groups: Vec<(String, PathBuf, u64, f64)> = vec![];
    let ncpu: u64 = std::env::var("JLV_WORKERS").ok().and_then(|s| s.parse().ok()).unwrap_or(16);
    if both {
        if !bins.contains_key("fast") {
            println!("INCONCLUSIVE: the fast-profile harness binary is missing (JLV_FAST_BIN)");
            return 2;
        }
        let per = (ncpu / 2).max(1);
        groups.push(("checked".into(), bins["checked"].clone(), if prop_id == "C01" { per } else { ncpu }, 1.0));
        groups.push(("fast".into(), bins["fast"].clone(), if prop_id == "C01" { per } else { ncpu }, if prop_id == "C01" { 1.0 } else { 0.5 }));
    } else {
        groups.push(("checked".into(), bins["checked"].clone(), ncpu, 1.0));
    }

    // ---- 1. regression tier: committed reproductions and corner inputs, replayed first, in every profile
    let reg_dir = root.join("regressions").join(prop_id);
    let mut reg_lines: Vec<String> = vec![];
    if let Ok(rd) = std::fs::read_dir(&reg_dir) {
        let mut files: Vec<PathBuf> = rd.filter_map(|e| e.ok().map(|e| e.path())).filter(|p| p.extension().map(|x| x == "json" || x == "jsonl").unwrap_or(false)).collect();
        files.sort();
        for f in files {
            if let Ok(text) = std::fs::read_to_string(&f) {
                for line in text.lines() {
                    let t = line.trim();
                    if t.is_empty() || t.starts_with('#') {
                        continue;
                    }
                    reg_lines.push(t.to_string());
                }
            }
        }
    }
    // reproductions that belong to the Python leg go to the Hypothesis harness
    let (py_lines, reg_lines): (Vec<String>, Vec<String>) = reg_lines.into_iter().partition(|l| serde_json::from_str::<Value>(l).ok().and_then(|v| v["sub"].as_str().map(|s| s.starts_with("py_"))).unwrap_or(false));
    let reg_file = out_dir.join("regressions.jsonl");
    let _ = std::fs::write(&reg_file, reg_lines.join("\n"));
    let py_reg_file = out_dir.join("regressions-py.jsonl");
    let _ = std::fs::write(&py_reg_file, py_lines.join("\n"));

    let mut children = vec![];
    let spawn = |bin: &Path, extra: Vec<String>, profile: &str, worker: u64, of: u64, scale: f64| -> std::io::Result<std::process::Child> {
        let mut c = Command::new(bin);
        c.arg("worker")
            .args(["--prop", prop_id, "--tier", tier, "--seed", &seed.to_string(), "--profile", profile])
            .args(["--worker", &worker.to_string(), "--of", &of.to_string(), "--scale", &scale.to_string()])
            .args(["--out", &out_dir.to_string_lossy()])
            .args(extra)
            .env("RUST_BACKTRACE", "0")
            .env("JLV_ROOT", &root)
            .stdin(Stdio::null())
            .stdout(Stdio::null())
            .stderr(Stdio::inherit());
        c.spawn()
    };

    if !reg_lines.is_empty() {
        for (profile, bin, _, _) in &groups {
            match spawn(bin, vec!["--replay-file".into(), reg_file.to_string_lossy().to_string()], &format!("{}-regress", profile), 900, 1, 1.0) {
                Ok(ch) => children.push((format!("regress/{}", profile), ch)),
                Err(e) => {
                    println!("INCONCLUSIVE: cannot spawn worker: {}", e);
                    return 2;
                }
            }
        }
    }
    for (profile, bin, n, scale) in &groups {
        for w in 0..*n {
            match spawn(bin, vec![], profile, w, *n, *scale) {
                Ok(ch) => children.push((format!("{}/{}", profile, w), ch)),
                Err(e) => {
                    println!("INCONCLUSIVE: cannot spawn worker: {}", e);
                    return 2;
                }
            }
        }
    }
    // ---- external legs (python)
    for (name, ch) in jlverif::external::spawn_external(prop_id, tier, seed, &root, &out_dir, &py_reg_file) {
        children.push((name, ch));
    }

    let mut statuses = runner::wait_all(children, runner::wall_limit(tier), started);

    // ---- a watchdog exit (97 = one implementation call over the CPU budget, 98 = the check itself too slow) is
    // confirmed before it is believed: evaluation is a pure function of the case, so a genuine hang kills the re-run
    // worker at the same case again, whereas a stall of the machine (CPU time billed to a descheduled virtual CPU) does not.
    let mut retry = vec![];
    for (name, st) in &statuses {
        let code = st.as_ref().and_then(|s| s.code());
        if code != Some(97) && code != Some(98) {
            continue;
        }
        let (profile, w) = name.split_once('/').unwrap_or((name.as_str(), "0"));
        if profile == "external" {
            continue;
        }
        let child = if profile == "regress" {
            groups.iter().find(|g| g.0 == w).map(|(p, bin, _, _)| (format!("w900-{}-regress", p), spawn(bin, vec!["--replay-file".into(), reg_file.to_string_lossy().to_string()], &format!("{}-regress", p), 900, 1, 1.0)))
        } else {
            groups.iter().find(|g| g.0 == profile).and_then(|(p, bin, n, scale)| w.parse::<u64>().ok().map(|wi| (format!("w{}-{}", wi, p), spawn(bin, vec![], p, wi, *n, *scale))))
        };
        if let Some((tag, Ok(ch))) = child {
            let hang_file = out_dir.join(format!("{}.hang", tag));
            let first = std::fs::read_to_string(&hang_file).unwrap_or_default();
            let _ = std::fs::remove_file(&hang_file);
            println!("NOTE: worker {} was stopped by the CPU watchdog (exit {}); re-running it once to confirm: {}", name, code.unwrap_or(0), first.chars().take(300).collect::<String>());
            retry.push((name.clone(), ch));
        }
    }
    if !retry.is_empty() {
        let again = runner::wait_all(retry, runner::wall_limit(tier), std::time::Instant::now());
        for (name, st) in again {
            if st.as_ref().map(|s| s.success()).unwrap_or(false) {
                println!("NOTE: worker {} completed normally when re-run: the watchdog exit did not reproduce and is not a finding", name);
            }
            if let Some(slot) = statuses.iter_mut().find(|(n, _)| *n == name) {
                slot.1 = st;
            }
        }
    }

    // ---- merge
    let mut merged = Merged { subs: BTreeMap::new() };
    let mut findings: Vec<Finding> = vec![];
    let mut inconclusive: Vec<String> = vec![];
    for (name, st) in &statuses {
        let (profile, w) = name.split_once('/').unwrap_or((name.as_str(), "0"));
        let tag = if profile == "regress" { format!("w900-{}-regress", w) } else if profile == "external" { w.to_string() } else { format!("w{}-{}", w, profile) };
        let json_file = out_dir.join(format!("{}.json", tag));
        let hang_file = out_dir.join(format!("{}.hang", tag));
        let cur_file = if profile == "external" { out_dir.join(format!("{}.json.current", tag)) } else { out_dir.join(format!("{}.current", tag)) };
        match st {
            None => inconclusive.push(format!("worker {} exceeded the wall-clock limit", name)),
            Some(s) if s.success() => {
                if let Err(e) = runner::merge_worker_file(&mut merged, &json_file) {
                    inconclusive.push(format!("worker {}: {}", name, e));
                }
            }
            Some(s) => {
                // abnormal exit: hang (97), signal, abort, stack overflow
                let hang = std::fs::read_to_string(&hang_file).ok().and_then(|t| serde_json::from_str::<Value>(&t).ok());
                let cur = std::fs::read_to_string(&cur_file).ok().and_then(|t| serde_json::from_str::<Value>(t.trim()).ok());
                if profile == "external" {
                    // the Python interpreter died (abort, fatal signal) while making this call
                    match cur {
                        Some(c) => findings.push(Finding {
                            sub: c["sub"].as_str().unwrap_or("py").into(),
                            case_text: c["case_text"].as_str().unwrap_or("null").to_string(),
                            msg: format!("the Python interpreter died while making this call ({:?}): the module must raise an ordinary exception instead of crashing the interpreter", s),
                            profile: w.into(),
                        }),
                        None => inconclusive.push(format!("the python leg {} ended abnormally ({:?})", w, s)),
                    }
                } else if prop_id == "C01" && hang.as_ref().map(|h| h["oracle_slow"].as_bool().unwrap_or(false)).unwrap_or(false) {
                    inconclusive.push(format!("worker {}: the check itself was too slow on one case (not the code under test): {}", name, hang.as_ref().and_then(|h| h["case_text"].as_str()).unwrap_or("").chars().take(300).collect::<String>()));
                } else if prop_id == "C01" {
                    if let Some(h) = hang {
                        findings.push(Finding { sub: h["sub"].as_str().unwrap_or("").into(), case_text: h["case_text"].as_str().unwrap_or("null").to_string(), msg: h["msg"].as_str().unwrap_or("hang").into(), profile: profile.into() });
                    } else if let Some(c) = cur {
                        findings.push(Finding {
                            sub: c["sub"].as_str().unwrap_or("").into(),
                            case_text: c["case_text"].as_str().unwrap_or("null").to_string(),
                            msg: format!("the worker process died while evaluating this case ({:?}): abort, stack overflow or fatal signal", s),
                            profile: profile.into(),
                        });
                    } else {
                        inconclusive.push(format!("worker {} died ({:?}) and left no current-case record", name, s));
                    }
                } else {
                    let detail = match &hang {
                        Some(h) => format!(" after exceeding the per-case CPU budget in sub-check {} on case {}", h["sub"].as_str().unwrap_or("?"), h["case_text"].as_str().unwrap_or("").chars().take(400).collect::<String>()),
                        None => String::new(),
                    };
                    // keep the whole case for analysis (an inconclusive run decides nothing, but its cause must be found)
                    if let Some(h) = &hang {
                        let dir = root.join("target").join("inconclusive");
                        let _ = std::fs::create_dir_all(&dir);
                        let _ = std::fs::write(dir.join(format!("{}-{}-{}.json", prop_id, h["sub"].as_str().unwrap_or("sub"), std::process::id())), h.to_string());
                    }
                    inconclusive.push(format!("worker {} ended abnormally ({:?}){}", name, s, detail));
                }
            }
        }
    }
    for (sub, m) in &merged.subs {
        for v in &m.violations {
            if v.get("oracle_broken").and_then(|b| b.as_bool()).unwrap_or(false) {
                inconclusive.push(format!("{}: {}", sub, v["msg"].as_str().unwrap_or("")));
                continue;
            }
            // artifacts of a fuzz campaign replay through the corpus-replay sub-check (same target body)
            let sub = if sub.ends_with("_campaign") { "fuzz_corpus_replay".to_string() } else { sub.clone() };
            findings.push(Finding { sub: sub.clone(), case_text: v["case_text"].as_str().unwrap_or("null").to_string(), msg: v["msg"].as_str().unwrap_or("").to_string(), profile: v["profile"].as_str().unwrap_or("").to_string() });
        }
    }

    for (name, _, _) in props::external_about(prop_id) {
        if !merged.subs.contains_key(name) {
            inconclusive.push(format!("the python leg did not report sub-check {}", name));
        }
    }
    if tier == "thorough" {
        for (name, _, _) in props::external_about_thorough(prop_id) {
            if !merged.subs.contains_key(name) {
                inconclusive.push(format!("the fuzz campaign did not report sub-check {}", name));
            }
        }
    }
    // ---- report
    let wall = started.elapsed().as_secs_f64();
    let replay_dir = root.join("replays").join(prop_id);
    let mut printed = 0;
    let mut seen = std::collections::HashSet::new();
    if !findings.is_empty() {
        let _ = std::fs::create_dir_all(&replay_dir);
    }
    for f in &findings {
        let key = format!("{}|{}", f.sub, f.case_text);
        if !seen.insert(key.clone()) {
            continue;
        }
        let h = runner::fnv(&key);
        let path = replay_dir.join(format!("{}-{:016x}.json", f.sub, h));
        let mut rec = json!({"property": prop_id, "sub": f.sub, "case_text": f.case_text, "message": f.msg, "profile": f.profile, "seed": seed, "tier": tier});
        if let Some(c) = shallow_case(&f.case_text, 100) {
            rec["case"] = c;
        }
        let _ = std::fs::write(&path, serde_json::to_string_pretty(&rec).unwrap_or_default());
        if printed < 10 {
            println!("VIOLATION property={} replay={}", prop_id, path.display());
            println!("  sub-check {}: {}", f.sub, f.msg.chars().take(600).collect::<String>());
            printed += 1;
        }
    }
    let mut known_total: BTreeMap<String, u64> = BTreeMap::new();
    for m in merged.subs.values() {
        for (k, n) in &m.known {
            *known_total.entry(k.clone()).or_insert(0) += n;
        }
    }
    for (k, n) in &known_total {
        println!("KNOWN-FINDING: property={} {} ({} cases excluded)", prop_id, k, n);
    }

    write_evidence(&root, &prop, tier, seed, &merged, wall, findings.len(), &groups.iter().map(|g| g.0.clone()).collect::<Vec<_>>(), &inconclusive);

    let total_cases: u64 = merged.subs.values().map(|m| m.cases).sum();
    let total_nt: usize = merged.subs.values().map(|m| m.distinct.len()).sum();
    println!("{} {}: {} cases, {} distinct non-trivial, {} sub-checks, {:.1}s, seed {}", prop_id, tier, total_cases, total_nt, merged.subs.len(), wall, seed);
    for (name, m) in &merged.subs {
        println!("  {:<28} cases {:>9}  non-trivial {:>9} (distinct {:>9})  unspec {:>7}  violations {}", name, m.cases, m.nontrivial, m.distinct.len(), m.unspec.values().sum::<u64>(), m.violations.len());
    }
    let _ = std::fs::remove_dir_all(&out_dir);
    if !findings.is_empty() {
        return 1;
    }
    if !inconclusive.is_empty() {
        for i in &inconclusive {
            println!("INCONCLUSIVE: {}", i);
        }
        return 2;
    }
    0
}

fn depth_of(v: &Value) -> usize {
    match v {
        Value::Array(a) => 1 + a.iter().map(depth_of).max().unwrap_or(0),
        Value::Object(o) => 1 + o.values().map(depth_of).max().unwrap_or(0),
        _ => 0,
    }
}

/// the case as JSON when it is shallow enough to be embedded, else None (it stays available as text)
fn shallow_case(text: &str, max_depth: usize) -> Option<Value> {
    serde_json::from_str::<Value>(text).ok().filter(|v| depth_of(v) <= max_depth)
}

fn sample_json(sub: &str, smp: &Value) -> Value {
    let text = smp["case_text"].as_str().unwrap_or("null");
    match shallow_case(text, 40) {
        Some(c) => json!({"sub": sub, "class": smp["class"], "case": c}),
        None => json!({"sub": sub, "class": smp["class"], "case_text": text}),
    }
}

fn write_evidence(root: &Path, prop: &runner::Property, tier: &str, seed: u64, merged: &Merged, wall: f64, violations: usize, profiles: &[String], inconclusive: &[String]) {
    let mut samples: Vec<Value> = vec![];
    let mut subs = serde_json::Map::new();
    let mut classes_all = serde_json::Map::new();
    let mut unspec_all: BTreeMap<String, u64> = BTreeMap::new();
    let mut excluded_known: u64 = 0;
    let mut rule_parts: Vec<String> = vec![];
    let mut exhaustive_subs: Vec<String> = vec![];
    let empty = MergedSub::default();
    for s in &prop.subs {
        let m = merged.subs.get(s.name).unwrap_or(&empty);
        for smp in m.samples.iter().take(4) {
            samples.push(sample_json(s.name, smp));
        }
        subs.insert(
            s.name.to_string(),
            json!({"cases": m.cases, "enumerated_cases": m.fixed_cases, "implementation_evaluations": m.evals, "nontrivial": m.nontrivial, "distinct_nontrivial": m.distinct.len(),
                   "violations": m.violations.len(), "unspec_skips": m.unspec, "excluded_known": m.known, "enumeration_complete": s.fixed.is_some() && s.fixed_exhaustive}),
        );
        classes_all.insert(s.name.to_string(), json!(m.classes));
        for (k, n) in &m.unspec {
            *unspec_all.entry(k.clone()).or_insert(0) += n;
        }
        excluded_known += m.known.values().sum::<u64>();
        rule_parts.push(format!("[{}] {} Non-trivial: {}", s.name, s.about, s.nontrivial));
        if s.fixed.is_some() && s.fixed_exhaustive {
            exhaustive_subs.push(s.name.to_string());
        }
    }
    for (name, about, nt) in props::external_about(prop.id) {
        rule_parts.push(format!("[{}] {} Non-trivial: {}", name, about, nt));
    }
    if tier == "thorough" {
        for (name, about, nt) in props::external_about_thorough(prop.id) {
            rule_parts.push(format!("[{}] {} Non-trivial: {}", name, about, nt));
        }
    }
    // sub-checks reported by external workers (python) that are not in the Rust table
    for (name, m) in &merged.subs {
        if !prop.subs.iter().any(|s| s.name == name) {
            for smp in m.samples.iter().take(4) {
                samples.push(sample_json(name, smp));
            }
            subs.insert(name.clone(), json!({"cases": m.cases, "implementation_evaluations": m.evals, "nontrivial": m.nontrivial, "distinct_nontrivial": m.distinct.len(), "violations": m.violations.len(), "unspec_skips": m.unspec}));
            classes_all.insert(name.clone(), json!(m.classes));
        }
    }
    let evaluations: u64 = merged.subs.values().map(|m| m.evals.max(m.cases)).sum();
    let distinct: usize = merged.subs.values().map(|m| m.distinct.len()).sum();
    let ev = json!({
        "property_id": prop.id,
        "tier": tier,
        "seed": seed as i64,
        "level": "exploration",
        "coverage": {
            "evaluations": evaluations,
            "distinct_nontrivial": distinct,
            "rule": format!("Distinct = distinct FNV-64 hash of the serialised case, counted per sub-check and summed. {}", rule_parts.join(" || ")),
            "samples": samples,
            "cases": merged.subs.values().map(|m| m.cases).sum::<u64>(),
            "subchecks": subs,
            "classes": classes_all,
            "unspec": unspec_all,
            "excluded_known": excluded_known,
            "profiles": profiles,
            "exhaustive": false,
            "exhaustive_subchecks": exhaustive_subs,
            "inconclusive": inconclusive,
        },
        "assumptions": prop.assumptions,
        "wall_s": (wall * 100.0).round() / 100.0,
        "violations": violations as i64,
    });
    let dir = root.join("evidence");
    let _ = std::fs::create_dir_all(&dir);
    let _ = std::fs::write(dir.join(format!("{}.json", prop.id)), serde_json::to_string_pretty(&ev).unwrap_or_default() + "\n");
}

fn replay(prop_id: &str, file: &str) -> i32 {
    let root = verif_root();
    let text = match std::fs::read_to_string(file) {
        Ok(t) => t,
        Err(e) => {
            println!("cannot read {}: {}", file, e);
            return 2;
        }
    };
    let v: Value = match serde_json::from_str(&text) {
        Ok(v) => v,
        Err(e) => {
            println!("cannot parse {}: {}", file, e);
            return 2;
        }
    };
    let out_dir = root.join("target").join("run").join(format!("{}-replay-{}", prop_id, std::process::id()));
    let _ = std::fs::create_dir_all(&out_dir);
    let line = match v["case_text"].as_str() {
        Some(t) => json!({"sub": v["sub"], "case_text": t}).to_string(),
        None => json!({"sub": v["sub"], "case_text": v["case"].to_string()}).to_string(),
    };
    let rf = out_dir.join("replay.jsonl");
    let _ = std::fs::write(&rf, line);
    let mut worst = 0;
    let sub_name = v["sub"].as_str().unwrap_or("").to_string();
    if sub_name.starts_with("py_") {
        // python sub-check: re-execute through the Hypothesis harness's bodies, in both builds of the extension
        let case_file = out_dir.join("case.json");
        let text = match v["case_text"].as_str() {
            Some(t) => t.to_string(),
            None => v["case"].to_string(),
        };
        let _ = std::fs::write(&case_file, text);
        let py = std::env::var("JLV_PYTHON").unwrap_or_else(|_| "python3-vt".to_string());
        for pkg in ["dev", "release"] {
            let out = out_dir.join(format!("py-{}.json", pkg));
            let st = Command::new(&py)
                .arg(root.join("py").join("check_py.py"))
                .args(["--prop", prop_id, "--pkg", pkg, "--replay-sub", &sub_name])
                .args(["--replay-case-file", &case_file.to_string_lossy(), "--out", &out.to_string_lossy()])
                .env("RUST_BACKTRACE", "0")
                .stdout(Stdio::null())
                .status();
            match st {
                Ok(s) if s.success() => {
                    let mut merged = Merged { subs: BTreeMap::new() };
                    let _ = runner::merge_worker_file(&mut merged, &out);
                    let mut bad = false;
                    for (sub, m) in &merged.subs {
                        for viol in &m.violations {
                            bad = true;
                            println!("VIOLATION property={} replay={}", prop_id, file);
                            println!("  [{}] sub-check {}: {}", pkg, sub, viol["msg"].as_str().unwrap_or(""));
                        }
                    }
                    if bad {
                        worst = worst.max(1);
                    } else {
                        println!("[python {}] replay passes: the property holds on this case", pkg);
                    }
                }
                Ok(s) => {
                    println!("VIOLATION property={} replay={}", prop_id, file);
                    println!("  [python {}] the interpreter died while replaying the case: {:?}", pkg, s);
                    worst = worst.max(1);
                }
                Err(e) => {
                    println!("cannot spawn python: {}", e);
                    worst = worst.max(2);
                }
            }
        }
        let _ = std::fs::remove_dir_all(&out_dir);
        return worst;
    }
    for (profile, bin) in profile_bins() {
        let st = Command::new(&bin)
            .arg("worker")
            .args(["--prop", prop_id, "--tier", "quick", "--seed", "0", "--profile", &profile, "--worker", "0", "--of", "1", "--strict"])
            .args(["--out", &out_dir.to_string_lossy(), "--replay-file", &rf.to_string_lossy()])
            .env("RUST_BACKTRACE", "0")
            .env("JLV_ROOT", &root)
            .stdout(Stdio::null())
            .status();
        match st {
            Ok(s) if s.success() => {
                let mut merged = Merged { subs: BTreeMap::new() };
                let _ = runner::merge_worker_file(&mut merged, &out_dir.join(format!("w0-{}.json", profile)));
                let mut bad = false;
                for (sub, m) in &merged.subs {
                    for viol in &m.violations {
                        bad = true;
                        println!("VIOLATION property={} replay={}", prop_id, file);
                        println!("  [{}] sub-check {}: {}", profile, sub, viol["msg"].as_str().unwrap_or(""));
                    }
                }
                if bad {
                    worst = worst.max(1);
                } else {
                    println!("[{}] replay passes: the property holds on this case", profile);
                }
            }
            Ok(s) => {
                println!("VIOLATION property={} replay={}", prop_id, file);
                println!("  [{}] the worker died while replaying the case: {:?}", profile, s);
                worst = worst.max(1);
            }
            Err(e) => {
                println!("cannot spawn worker: {}", e);
                worst = worst.max(2);
            }
        }
    }
    let _ = std::fs::remove_dir_all(&out_dir);
    worst
}
