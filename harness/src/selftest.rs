//! Soundness safeguards for the oracle itself (DESIGN.md 2.2): the model must agree with every example of the
//! repository's own suite and reproduce the recorded JavaScript ground truth.  A failure here means the *oracle*
//! is broken (exit 2), never a violation.

use crate::corpus;
use crate::model::coerce::{self, Tri};
use crate::model::{eval, values_match, Res};
use std::path::Path;

pub fn run(root: &Path) -> Result<String, String> {
    let mut checked = 0usize;
    let mut unspec = 0usize;
    // 1. repository examples
    for (rule, data, expected) in corpus::load_repo_examples()? {
        let (r, _) = eval(&rule, &data);
        match r {
            Res::Ok(v) => {
                if !values_match(&expected, &v) && expected != v {
                    return Err(format!("model disagrees with tests.json: rule {} data {} expected {} model {}", rule, data, expected, v));
                }
                checked += 1;
            }
            Res::Unspec(_) => unspec += 1,
            Res::Err => return Err(format!("model says Err for tests.json example: rule {} data {} expected {}", rule, data, expected)),
        }
    }
    // 2. StringToNumber / parseFloat
    let mut n_num = 0usize;
    for row in corpus::load_tonumber(root)? {
        let (n, many) = coerce::string_to_number_ext(&row.s);
        if !corpus::same_double(n, row.number) {
            if many {
                unspec += 1;
            } else {
                return Err(format!("model StringToNumber({:?}) = {:e}, JavaScript says {:e}", row.s, n, row.number));
            }
        }
        let (p, many) = coerce::parse_float_str_ext(&row.s);
        if !corpus::same_double(p, row.parse_float) {
            if many {
                unspec += 1;
            } else {
                return Err(format!("model parseFloat({:?}) = {:e}, JavaScript says {:e}", row.s, p, row.parse_float));
            }
        }
        n_num += 1;
    }
    // 3. comparison bits
    let mut n_pairs = 0usize;
    let tri_ok = |t: Tri, js: bool| -> bool {
        match t {
            Tri::True => js,
            Tri::False => !js,
            Tri::Unspec(_) => true,
        }
    };
    for row in corpus::load_pairs(root)? {
        let bad = |what: &str, t: Tri, js: bool| format!("model {} on ({}, {}) = {:?}, JavaScript says {}", what, row.a, row.b, t, js);
        let t = coerce::abstract_eq(&row.a, &row.b);
        if !tri_ok(t, row.eq) {
            return Err(bad("==", t, row.eq));
        }
        let t = coerce::strict_eq(&row.a, &row.b);
        if !tri_ok(t, row.seq) {
            return Err(bad("===", t, row.seq));
        }
        if let Some(js) = row.lt {
            let t = coerce::relational(&row.a, &row.b, true);
            if !tri_ok(t, js) {
                return Err(bad("<", t, js));
            }
        }
        if let Some(js) = row.le {
            let t = coerce::relational(&row.a, &row.b, false);
            if !tri_ok(t, js) {
                return Err(bad("<=", t, js));
            }
        }
        if let Some(js) = row.gt {
            let t = coerce::relational(&row.b, &row.a, true);
            if !tri_ok(t, js) {
                return Err(bad(">", t, js));
            }
        }
        if let Some(js) = row.ge {
            let t = coerce::relational(&row.b, &row.a, false);
            if !tri_ok(t, js) {
                return Err(bad(">=", t, js));
            }
        }
        n_pairs += 1;
    }
    // 4. string forms, ToNumber / parseFloat of non-string values
    let mut n_forms = 0usize;
    for row in corpus::load_forms(root)? {
        if coerce::str_form(&row.v) != row.s {
            return Err(format!("model string form of {} = {:?}, JavaScript says {:?}", row.v, coerce::str_form(&row.v), row.s));
        }
        let n = coerce::to_number(&row.v);
        if !corpus::same_double(n, row.number) {
            return Err(format!("model ToNumber({}) = {:e}, JavaScript says {:e}", row.v, n, row.number));
        }
        let p = coerce::parse_float_ext(&row.v).0;
        if !corpus::same_double(p, row.parse_float) {
            return Err(format!("model parseFloat({}) = {:e}, JavaScript says {:e}", row.v, p, row.parse_float));
        }
        n_forms += 1;
    }
    Ok(format!("{} repository examples, {} numeric strings, {} value pairs, {} string forms reproduced ({} in unspecified zones)", checked, n_num, n_pairs, n_forms, unspec))
}
