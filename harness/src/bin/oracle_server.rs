//! Line-oriented oracle for the Python check: the library linked directly.
//! Request (one line):  ["<rule text>", "<data text>"]
//! Reply   (one line):  {"ok": "<result text>", "lines": [...]} | {"err": "..."} | {"parse_err": "..."} | {"panic": "..."}
//! `log` output of the evaluated rule is captured (fd 1 is redirected), replies go to the original stdout.

use jlverif::{capture, imp};
use serde_json::{json, Value};
use std::io::{BufRead, Write};
use std::os::unix::io::FromRawFd;

fn main() {
    // keep the real stdout for replies, then capture fd 1
    let reply_fd = unsafe { libc::dup(1) };
    let mut reply = unsafe { std::fs::File::from_raw_fd(reply_fd) };
    capture::install(false);
    imp::install_panic_hook();
    let stdin = std::io::stdin();
    for line in stdin.lock().lines() {
        let line = match line {
            Ok(l) => l,
            Err(_) => break,
        };
        if line.trim().is_empty() {
            continue;
        }
        let req: Value = match serde_json::from_str(&line) {
            Ok(v) => v,
            Err(e) => {
                let _ = writeln!(reply, "{}", json!({"protocol_error": e.to_string()}));
                let _ = reply.flush();
                continue;
            }
        };
        let rule_text = req[0].as_str().unwrap_or("");
        let data_text = req[1].as_str().unwrap_or("");
        let out = match (serde_json::from_str::<Value>(rule_text), serde_json::from_str::<Value>(data_text)) {
            (Ok(r), Ok(d)) => {
                let t = imp::apply_traced(&r, &d);
                match t.out {
                    imp::Out::Ok(v) => json!({"ok": v.to_string(), "lines": t.lines}),
                    imp::Out::Err(e) => json!({"err": e}),
                    imp::Out::Panic(m) => json!({"panic": m}),
                }
            }
            (Err(e), _) => json!({"parse_err": format!("rule: {}", e)}),
            (_, Err(e)) => json!({"parse_err": format!("data: {}", e)}),
        };
        let _ = writeln!(reply, "{}", out);
        let _ = reply.flush();
    }
}
