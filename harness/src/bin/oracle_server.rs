fn main(){}
