//! jlverif: property-based verification harness for Bestowinc/json-logic-rs (see /verif/DESIGN.md).
pub mod capture;
pub mod cli;
pub mod corpus;
pub mod external;
pub mod fuzzbody;
pub mod gen;
pub mod helpers;
pub mod imp;
pub mod model;
pub mod props;
pub mod runner;
pub mod selftest;
