//! proptest strategies shared by the properties (DESIGN.md section 3).  Everything random is drawn here so that
//! shrinking and seeded replay work; all strategies produce `serde_json::Value`.

use proptest::collection::vec;
use proptest::prelude::*;
use proptest::sample::select;
use serde_json::{json, Map, Number, Value};

pub mod rules;

pub type VS = BoxedStrategy<Value>;

pub fn j<T: Into<Value>>(x: T) -> Value {
    x.into()
}

pub fn f(x: f64) -> Value {
    Number::from_f64(x).map(Value::Number).unwrap_or(Value::Null)
}

// ------------------------------------------------------------------------------------------------ numbers

pub const INT_EXTREMES: &[i64] = &[
    i64::MIN,
    i64::MIN + 1,
    i64::MAX,
    i64::MAX - 1,
    -2147483648,
    2147483647,
    2147483648,
    -2147483649,
    4294967295,
    4294967296,
    -4294967296,
    9007199254740991,
    9007199254740992,
    9007199254740993,
    -9007199254740993,
    9007199254740995,
    9007199254740996,
];
pub const UINT_EXTREMES: &[u64] = &[9223372036854775808, 9223372036854775809, u64::MAX, u64::MAX - 1, 18446744073709549568];

pub const FLOAT_SPECIALS: &[f64] = &[
    -0.0, 0.0, 0.5, 1.0, 1.5, -1.5, 2.0, 3.0, 0.1, 0.2, 0.30000000000000004, 1e21, 1e-7, 5e-324, 1e-320, 1e-300, 1e-17, 1e-16, 2e-17, 2.220446049250313e-16, 1e19, -1e19, 1.8e19,
    -1.8e19, 1e308, 1.7e308, f64::MAX, f64::MIN, 9007199254740992.0, 9223372036854775808.0, -9223372036854775808.0, 18446744073709551616.0, 1e15, 1e16, 123456789.125, 0.9999999999999999,
    1.0000000000000002, 4.5, 16.0, 255.0, 100000.0,
];

pub fn small_ints() -> VS {
    (-10i64..=10).prop_map(j).boxed()
}

pub fn ints() -> VS {
    prop_oneof![
        6 => (-10i64..=10).prop_map(j),
        2 => select(INT_EXTREMES.to_vec()).prop_map(j),
        1 => select(UINT_EXTREMES.to_vec()).prop_map(j),
        1 => any::<i64>().prop_map(j),
        1 => (-1000i64..1000).prop_map(j),
    ]
    .boxed()
}

/// 1-17 significant digits times 10^k for k in -30..30: every switch point of a number printer / parser
pub fn decade_floats() -> VS {
    (vec(0u8..10, 1..=17), -30i32..=30, any::<bool>())
        .prop_map(|(digits, exp, neg)| {
            let mut m: String = digits.iter().map(|d| (b'0' + d) as char).collect();
            if m.len() > 1 {
                m.insert(1, '.');
            }
            let text = format!("{}{}e{}", if neg { "-" } else { "" }, m, exp);
            f(text.parse::<f64>().unwrap_or(0.0))
        })
        .boxed()
}

pub fn floats() -> VS {
    prop_oneof![
        2 => decade_floats(),
        4 => select(FLOAT_SPECIALS.to_vec()).prop_map(f),
        2 => (-10i64..=10).prop_map(|i| f(i as f64)),
        1 => (-40i64..=40).prop_map(|i| f(i as f64 / 4.0)),
        2 => any::<u64>().prop_map(|b| { let x = f64::from_bits(b); if x.is_finite() { f(x) } else { f(1.25) } }),
    ]
    .boxed()
}

pub fn numbers() -> VS {
    prop_oneof![3 => ints(), 2 => floats()].boxed()
}

// ------------------------------------------------------------------------------------------------ strings

pub const ES_SPACES: &[&str] = &["\t", "\n", "\u{000B}", "\u{000C}", "\r", " ", "\u{00A0}", "\u{1680}", "\u{2003}", "\u{2028}", "\u{2029}", "\u{202F}", "\u{205F}", "\u{3000}", "\u{FEFF}"];
/// look like white space but are not for ECMAScript
pub const SPACE_TRAPS: &[&str] = &["\u{0085}", "\u{180E}", "\u{200B}"];

pub const RADIX_EDGE: &[&str] = &[
    "0x+10", "0X+ff", "0o+17", "0b+11", "0x-1", "0b-1", "0o-7", "0x 1", "0xffffffffffffffff", "0x10000000000000000", "0xfffffffffffffffff", "0o1777777777777777777777", "0o2000000000000000000000",
    "0o7777777777777777777777", "0o17777777777777777777777", "0o777777777777777777777", "0b1111111111111111111111111111111111111111111111111111111111111111",
    "0b10000000000000000000000000000000000000000000000000000000000000000", "0x1fffffffffffff", "0x20000000000001", "5.e3", "2.E-1", "-4.e+1", "1.e2px", "5.e", "0.3", "0.30000000000000004", "0.1",
    "0.10000000000000002", "1.0000000000000002", "0.9999999999999999",
];

pub const NUM_TRAPS: &[&str] = &[
    "inf", "INF", "Inf", "infinity", "INFINITY", "-inf", "+inf", "nan", "NaN", "NAN", "1_0", "0x", "0X", "-0x10", "+0x10", "0x1.8", "0xg", "1e", "1e+", "1e-", ".", "+", "-", "e5", ".e5", "1,2", "12px",
    "1-2", "1+2", "1e5.5", "1ee5", "--1", "++1", "+-1", "Infinity", "-Infinity", "+Infinity", "Infinityx", "Infinit", " Infinity ", "0b", "0b12", "0o8", "0o", "1 2", "٣", "１", "1e1000", "-1e1000",
    "1e-1000", "1,000", "1 000", "1\u{00a0}000", "1'000", "1.000,5", "1n", "1L", "1.0f", "1f", "$5", "5%", "5 %", "(5)", "1/2", "1:30", "2020-01-01", "0x1p3", "0x1.8p1", "1e3e3", "٣٫٥", "1..2", "1.2.3", "00", "007", "-0", "+0", "0.0", "-0.0", ".5", "5.", "1.e1", "1.0", "1.50", "9007199254740993", "18446744073709551616", "true", "false", "null", "undefined",
];

fn digits(max: usize) -> BoxedStrategy<String> {
    vec(0u8..10, 1..=max).prop_map(|v| v.into_iter().map(|d| (b'0' + d) as char).collect::<String>()).boxed()
}

fn decimal_literal() -> BoxedStrategy<String> {
    let mantissa = prop_oneof![
        4 => digits(4),
        2 => (digits(3), digits(3)).prop_map(|(a, b)| format!("{}.{}", a, b)),
        1 => digits(3).prop_map(|a| format!("{}.", a)),
        1 => digits(3).prop_map(|a| format!(".{}", a)),
        1 => digits(18),
    ];
    let exponent = prop_oneof![
        5 => Just(String::new()),
        1 => (select(vec!["e", "E"]), select(vec!["", "+", "-"]), 0u32..30).prop_map(|(e, s, n)| format!("{}{}{}", e, s, n)),
        1 => (select(vec!["e", "E"]), select(vec!["", "+", "-"]), 290u32..330).prop_map(|(e, s, n)| format!("{}{}{}", e, s, n)),
    ];
    (select(vec!["", "", "-", "+"]), mantissa, exponent).prop_map(|(s, m, e)| format!("{}{}{}", s, m, e)).boxed()
}

fn radix_literal() -> BoxedStrategy<String> {
    prop_oneof![
        (select(vec!["0x", "0X"]), vec(select("0123456789abcdefABCDEF".chars().collect::<Vec<char>>()), 1..18)).prop_map(|(p, d)| format!("{}{}", p, d.into_iter().collect::<String>())),
        (select(vec!["0o", "0O"]), vec(select("01234567".chars().collect::<Vec<char>>()), 1..24)).prop_map(|(p, d)| format!("{}{}", p, d.into_iter().collect::<String>())),
        (select(vec!["0b", "0B"]), vec(select("01".chars().collect::<Vec<char>>()), 1..70)).prop_map(|(p, d)| format!("{}{}", p, d.into_iter().collect::<String>())),
    ]
    .boxed()
}

/// Radix literals built to sit on a rounding boundary of the double format, with their value known *by construction*:
/// a 53-bit significand m (top bit set), one round bit r, then k >= 11 tail bits (so that more than 64 significant bits
/// follow one another) which are all zero, all one, a single one first / last, or mixed.  The exact value is
/// (m*2 + r) * 2^k + tail; round-to-nearest-even gives m (+1 when r = 1 and (tail != 0 or m is odd)) times 2^(k+1).
pub fn radix_rounding_case() -> BoxedStrategy<(String, f64)> {
    (0u64..(1u64 << 52), any::<bool>(), 0u8..6, 11usize..=80, 0u8..3, any::<bool>(), any::<u64>(), 0usize..3).prop_map(|(low, r, tail_kind, k, radix_ix, upper, noise, lead_zero_digits)| {
        let m: u64 = (1u64 << 52) | low;
        let mut bits: Vec<u8> = (0..53).rev().map(|i| ((m >> i) & 1) as u8).collect();
        bits.push(r as u8);
        let tail: Vec<u8> = match tail_kind {
            0 => vec![0; k],
            1 => vec![1; k],
            2 => (0..k).map(|i| (i == 0) as u8).collect(),
            3 => (0..k).map(|i| (i == k - 1) as u8).collect(),
            4 => (0..k).map(|i| (i == 10) as u8).collect(),
            _ => (0..k).map(|i| ((noise >> (i % 64)) & 1) as u8).collect(),
        };
        let tail_nonzero = tail.iter().any(|b| *b == 1);
        bits.extend(tail);
        let up = r && (tail_nonzero || m & 1 == 1);
        let rounded = if up { m + 1 } else { m };
        let value = rounded as f64 * 2f64.powi(k as i32 + 1);
        let (per, prefix) = match radix_ix {
            0 => (1, if upper { "0B" } else { "0b" }),
            1 => (3, if upper { "0O" } else { "0o" }),
            _ => (4, if upper { "0X" } else { "0x" }),
        };
        let pad = (per - bits.len() % per) % per;
        let mut all = vec![0u8; pad + lead_zero_digits * per];
        all.extend(bits);
        let digits: String = all.chunks(per).map(|c| {
            let d = c.iter().fold(0u32, |a, b| (a << 1) | *b as u32);
            let ch = std::char::from_digit(d, 16).unwrap_or('0');
            if upper { ch.to_ascii_uppercase() } else { ch }
        }).collect();
        (format!("{}{}", prefix, digits), value)
    })
    .boxed()
}

/// The numeric-string grammar of DESIGN.md section 3: literals, traps, ES white space and look-alikes around them, junk suffixes.
pub fn num_strings() -> BoxedStrategy<String> {
    let core = prop_oneof![
        5 => decimal_literal(),
        2 => radix_literal(),
        1 => radix_rounding_case().prop_map(|(s, _)| s),
        3 => select(NUM_TRAPS.to_vec()).prop_map(|s| s.to_string()),
        1 => select(RADIX_EDGE.to_vec()).prop_map(|s| s.to_string()),
        1 => Just(String::new()),
    ];
    let space = prop_oneof![
        6 => Just(String::new()),
        3 => select(ES_SPACES.to_vec()).prop_map(|s| s.to_string()),
        1 => (select(ES_SPACES.to_vec()), select(ES_SPACES.to_vec())).prop_map(|(a, b)| format!("{}{}", a, b)),
        1 => select(SPACE_TRAPS.to_vec()).prop_map(|s| s.to_string()),
    ];
    let suffix = prop_oneof![
        8 => Just(String::new()),
        1 => select(vec!["px", "x", "e", ".", ".5", "-2", "+", ",", "_", "é", " 1", "e+", "E5"]).prop_map(|s| s.to_string()),
    ];
    (space.clone(), core, suffix, space).prop_map(|(a, c, s, b)| format!("{}{}{}{}", a, c, s, b)).boxed()
}

pub const ASCII: &[char] = &['a', 'b', 'z', 'A', '0', '1', '9', ' ', '.', ',', '-', '\\', '"', '!', '~', '\n'];
pub const TWO_BYTE: &[char] = &['é', 'ü', 'ß', 'Ω', 'я', '\u{00A0}', '\u{0301}'];
pub const THREE_BYTE: &[char] = &['日', '本', '語', '€', '\u{FEFF}', '\u{2028}', '\u{FFFD}', 'ก'];
pub const FOUR_BYTE: &[char] = &['😀', '𝄞', '𐍈', '\u{10FFFF}'];

/// first / last code point of every UTF-8 lead-byte class and of the surrogate gap's neighbours
pub const UTF8_BOUNDARIES: &[char] = &[
    '\u{7F}', '\u{80}', '\u{7FF}', '\u{800}', '\u{FFF}', '\u{1000}', '\u{CFFF}', '\u{D000}', '\u{D55C}', '\u{D7FF}', '\u{E000}', '\u{F600}', '\u{FF21}', '\u{FFFF}', '\u{10000}', '\u{10041}', '\u{1F600}', '\u{2F600}',
    '\u{3FFFF}', '\u{40000}', '\u{FFFFF}', '\u{100000}', '\u{10FFFF}',
];

pub fn chars() -> BoxedStrategy<char> {
    prop_oneof![
        8 => select(ASCII.to_vec()),
        4 => select(TWO_BYTE.to_vec()),
        4 => select(THREE_BYTE.to_vec()),
        4 => select(FOUR_BYTE.to_vec()),
        2 => select(UTF8_BOUNDARIES.to_vec()),
        // any Unicode scalar value, all planes (curated pools alone would never meet e.g. the 0xED lead byte)
        1 => proptest::char::range('\u{80}', '\u{7FF}'),
        2 => proptest::char::range('\u{800}', '\u{FFFF}'),
        1 => proptest::char::range('\u{10000}', '\u{10FFFF}'),
    ]
    .boxed()
}

pub fn texts(max: usize) -> BoxedStrategy<String> {
    vec(chars(), 0..=max).prop_map(|v| v.into_iter().collect::<String>()).boxed()
}

/// Long strings whose byte lengths straddle typical buffer / truncation boundaries (255..4100 bytes), with multi-byte
/// characters at every alignment: unit repeated n times, optionally after a 0..3 character ASCII prefix.
pub fn long_texts() -> BoxedStrategy<String> {
    (select(vec!["é", "日", "😀", "a", "ab", "xé", "\u{0301}a"]), select(vec![100usize, 127, 128, 129, 170, 171, 255, 256, 257, 341, 400, 511, 512, 513, 1023, 1024, 1025, 2000, 4100]), 0usize..4)
        .prop_map(|(unit, bytes, prefix)| {
            let n = (bytes / unit.len()).max(1);
            format!("{}{}", "x".repeat(prefix), unit.repeat(n))
        })
        .boxed()
}

pub const OP_NAMES: &[&str] = &[
    "==", "!=", "===", "!==", "!", "!!", "<", "<=", ">", ">=", "+", "-", "*", "/", "%", "max", "min", "merge", "in", "cat", "substr", "log", "var", "missing", "missing_some", "if", "?:", "or", "and", "map",
    "filter", "reduce", "all", "some", "none",
];

pub const KEY_POOL: &[&str] = &["a", "b", "c", "", "0", "1", "-1", "a.b", "x\\y", "é", "current", "accumulator", "var", "xs", "secret", "k", "2", "日本", "a b", "+", "length", "xs.length", "__proto__", "constructor", "a.length", "../a", "$root", "$.a", "index", "this", "$index", "$key", "a?.b", "$..a", "a|b", "a||b", "a ?? b", "xs.*", "*", "a.*", "*.a", "xs.#", "xs.0:1", "xs.1:", "xs.:1", "xs.-1:0"];

pub const SPECIAL_STRINGS: &[&str] = &[
    "", "0", "1", "a", "b", "ab", "abc", "false", "true", "null", " ", "1,2", ",", ",,", "[object Object]", "a.b", "a.0", "0.a", "-1", "x\\y", "x\\.y", "secret", "var", "1.0", "1e0", "10", "9", "2", "é",
    "日本語", "😀", "a,b", "1,", "[object Object],[object Object]",
    // template / placeholder spellings of other languages: plain text here
    "{}", "{0}", "{1}{0}", "{} {}", "%s", "%d", "%1$s", "${a}", "{{a}}", "{a}", "$1", "\\1", "#{a}", ":a", "?",
];

pub fn strings() -> VS {
    prop_oneof![
        4 => select(SPECIAL_STRINGS.to_vec()).prop_map(|s| j(s)),
        3 => num_strings().prop_map(j),
        3 => texts(8).prop_map(j),
        1 => select(OP_NAMES.to_vec()).prop_map(|s| j(s)),
        1 => select(KEY_POOL.to_vec()).prop_map(|s| j(s)),
    ]
    .boxed()
}

// ------------------------------------------------------------------------------------------------ values

pub fn scalars() -> VS {
    prop_oneof![
        1 => Just(Value::Null),
        1 => Just(j(true)),
        1 => Just(j(false)),
        4 => numbers(),
        4 => strings(),
    ]
    .boxed()
}

pub fn keys() -> BoxedStrategy<String> {
    prop_oneof![
        6 => select(KEY_POOL.to_vec()).prop_map(|s| s.to_string()),
        1 => select(OP_NAMES.to_vec()).prop_map(|s| s.to_string()),
        1 => texts(3),
    ]
    .boxed()
}

pub fn object_of(values: VS, max: usize) -> VS {
    vec((keys(), values), 0..=max)
        .prop_map(|kv| {
            let mut m = Map::new();
            for (k, v) in kv {
                m.insert(k, v);
            }
            Value::Object(m)
        })
        .boxed()
}

/// Always-erroring, tracing and inert-marker operation-shaped values (as *data* they must stay inert).
pub fn op_shaped() -> VS {
    prop_oneof![
        Just(json!({"var": "secret"})),
        Just(json!({"+": ["x"]})),
        Just(json!({"log": "LEAK"})),
        Just(json!({"var": ""})),
        Just(json!({"==": [1]})),
        Just(json!({"cat": ["a", "b"]})),
        Just(json!({"if": [true, "T", "F"]})),
        Just(json!({"!": [true]})),
        Just(json!({"merge": [[1], [2]]})),
        Just(json!({"var": ["nope", {"var": "secret"}]})),
    ]
    .boxed()
}

/// Plain JSON values (no bias towards operation shapes), recursive to depth 3.
pub fn plain_values() -> VS {
    scalars()
        .prop_recursive(3, 24, 4, |inner| prop_oneof![2 => vec(inner.clone(), 0..=4).prop_map(Value::Array), 1 => object_of(inner, 3)].boxed())
        .boxed()
}

/// The value corpus: plain values plus operation-shaped values at any level.
pub fn values() -> VS {
    prop_oneof![8 => scalars(), 1 => op_shaped()]
        .prop_recursive(3, 24, 4, |inner| prop_oneof![2 => vec(inner.clone(), 0..=4).prop_map(Value::Array), 1 => object_of(inner, 3)].boxed())
        .boxed()
}

/// Small arrays of corpus values.
pub fn arrays() -> VS {
    vec(values(), 0..=4).prop_map(Value::Array).boxed()
}

/// Data documents: mostly objects over the key pool (so that rule paths hit), sometimes arrays / strings / scalars.
pub fn data_docs() -> VS {
    prop_oneof![
        6 => object_of(values(), 5),
        2 => arrays(),
        1 => strings(),
        1 => scalars(),
        1 => Just(Value::Null),
    ]
    .boxed()
}

/// Monotone index mapping (shrinks towards 0).
pub fn pick(i: u16, len: usize) -> usize {
    ((i as usize) * len) >> 16
}

pub fn case2(rule: VS, data: VS) -> VS {
    (rule, data).prop_map(|(r, d)| json!({"rule": r, "data": d})).boxed()
}

// ------------------------------------------------------------------------------------------------ comparison operands

/// Objects that are never operations (safe as literal operands).
pub fn inert_objects() -> VS {
    prop_oneof![
        Just(json!({})),
        Just(json!({"a": 1})),
        Just(json!({"a": 1, "b": 2})),
        Just(json!({"b": 2, "a": 1})),
        Just(json!({"a": {"b": [1, 2]}})),
        Just(json!({"": 0})),
        Just(json!({"a": 1.0})),
        Just(json!({"x": null})),
        Just(json!({"var": "a", "b": 1})),
    ]
    .boxed()
}

/// Operands for == === < <= > >= in min max: every type class, equal-looking spellings across classes.
pub fn cmp_values() -> VS {
    let small_arrays = prop_oneof![
        Just(json!([])),
        scalars().prop_map(|x| json!([x])),
        (scalars(), scalars()).prop_map(|(x, y)| json!([x, y])),
        Just(json!([[]])),
        Just(json!([null])),
        Just(json!([null, null])),
        small_ints().prop_map(|x| json!([[x]])),
        Just(json!([[1, 2]])),
        Just(json!([{}])),
        Just(json!([[], []])),
        (small_ints(), small_ints()).prop_map(|(x, y)| json!([x, [y]])),
    ];
    prop_oneof![
        1 => Just(Value::Null),
        1 => Just(j(true)),
        1 => Just(j(false)),
        5 => numbers(),
        6 => strings(),
        3 => small_arrays,
        1 => inert_objects(),
    ]
    .boxed()
}

fn respell(v: &Value) -> Option<Value> {
    let n = v.as_f64()?;
    match v {
        Value::Number(num) if num.is_f64() => {
            if n.fract() == 0.0 && n.abs() < 9.0e15 {
                Some(j(n as i64))
            } else {
                None
            }
        }
        Value::Number(_) => {
            if n.abs() < 9.0e15 {
                Some(f(n))
            } else {
                None
            }
        }
        _ => None,
    }
}

fn adjacent_double(x: f64, up: bool) -> f64 {
    if x == 0.0 {
        return if up { 5e-324 } else { -5e-324 };
    }
    let bits = x.to_bits();
    let next = if (x > 0.0) == up { bits + 1 } else { bits - 1 };
    f64::from_bits(next)
}

/// a string that differs from `s` in exactly one character, replaced by a *related* character: the next code point,
/// the same low 16 / low 8 bits (truncation twins), the other case, or a twin 0x10000 higher
pub fn near_miss_string(s: &str, at: u16, how: u8) -> Option<String> {
    let mut cs: Vec<char> = s.chars().collect();
    if cs.is_empty() {
        return None;
    }
    let i = pick(at, cs.len());
    let c = cs[i] as u32;
    let cand = match how % 6 {
        0 => c + 1,
        1 => c & 0xFFFF,
        2 => c & 0xFF,
        3 => c + 0x10000,
        4 => c ^ 0x20,
        _ => c.wrapping_sub(1),
    };
    let r = char::from_u32(cand)?;
    if r == cs[i] {
        return None;
    }
    cs[i] = r;
    Some(cs.into_iter().collect())
}

/// Pairs (a, b) where b is often derived from a so that equal-looking operands of different classes meet.
pub fn related_pairs() -> BoxedStrategy<(Value, Value)> {
    (cmp_values(), 0u8..18, cmp_values(), select(ES_SPACES.to_vec()), any::<u16>(), any::<u8>())
        .prop_map(|(a, t, other, sp, at, how)| {
            use crate::model::coerce;
            let b = match t {
                0 | 1 | 2 => other,
                3 => a.clone(),
                4 => Value::String(coerce::str_form(&a)),
                5 => json!([a.clone()]),
                6 => Value::String(format!("{}{}{}", sp, coerce::str_form(&a), sp)),
                7 => respell(&a).unwrap_or(other),
                8 => {
                    let n = coerce::to_number(&a);
                    if n.is_finite() {
                        crate::model::Ctx::number_value(n).ok_value().unwrap_or(other)
                    } else {
                        other
                    }
                }
                9 => {
                    let n = coerce::to_number(&a);
                    if n.is_finite() {
                        f(n)
                    } else {
                        other
                    }
                }
                10 => j(coerce::truthy(&a)),
                11 => json!([[a.clone()]]),
                // the neighbouring integer (same double beyond 2^53)
                12 => match a.as_i64() {
                    Some(i) => j(if how % 2 == 0 { i.wrapping_add(1) } else { i.wrapping_sub(1) }),
                    None => other,
                },
                // the adjacent double, as a number and as its text
                13 | 14 => match a.as_f64().or_else(|| { let n = coerce::to_number(&a); if n.is_finite() { Some(n) } else { None } }) {
                    Some(x) => {
                        let y = adjacent_double(x, how % 2 == 0);
                        if !y.is_finite() {
                            other
                        } else if t == 13 {
                            f(y)
                        } else {
                            Value::String(f(y).to_string())
                        }
                    }
                    None => other,
                },
                // a string one related character away
                15 | 16 => match &a {
                    Value::String(s) => near_miss_string(s, at, how).map(Value::String).unwrap_or(other),
                    _ => other,
                },
                _ => other,
            };
            (a, b)
        })
        .boxed()
}
