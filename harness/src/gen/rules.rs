//! Rule grammars: operator-aware random expressions (DESIGN.md section 3).

use super::*;
use proptest::strategy::Union;

#[derive(Clone)]
pub struct Cfg {
    /// operators the grammar may use
    pub vocab: Vec<&'static str>,
    /// literal leaves
    pub leaf: VS,
    /// keys used by generated `{"var": k}` leaves
    pub var_keys: Vec<&'static str>,
    /// per mille of operator nodes that get an arbitrary operand count
    pub bad_arity_pm: u32,
    /// weight of poison leaves (always-erroring / logging / statically malformed), 0 = none
    pub poison_w: u32,
    /// weight of `{"var": k}` leaves
    pub var_w: u32,
    pub depth: u32,
    pub size: u32,
}

impl Cfg {
    pub fn new(vocab: &[&'static str]) -> Cfg {
        Cfg { vocab: vocab.to_vec(), leaf: super::values(), var_keys: KEY_POOL.to_vec(), bad_arity_pm: 50, poison_w: 1, var_w: 4, depth: 3, size: 16 }
    }
    pub fn all_ops() -> Cfg {
        Cfg::new(OP_NAMES)
    }
    pub fn leaf(mut self, leaf: VS) -> Cfg {
        self.leaf = leaf;
        self
    }
    pub fn poison(mut self, w: u32) -> Cfg {
        self.poison_w = w;
        self
    }
    pub fn vars(mut self, w: u32) -> Cfg {
        self.var_w = w;
        self
    }
    pub fn bad_arity(mut self, pm: u32) -> Cfg {
        self.bad_arity_pm = pm;
        self
    }
    pub fn depth(mut self, d: u32) -> Cfg {
        self.depth = d;
        self
    }
    pub fn keys(mut self, k: &[&'static str]) -> Cfg {
        self.var_keys = k.to_vec();
        self
    }
}

/// `{"log": "P<i>"}` leaves a trace, `{"+":["x<i>"]}` always errors, `{"==":[1]}` is statically malformed.
pub fn poison() -> VS {
    prop_oneof![
        3 => (0u8..4).prop_map(|i| json!({"log": format!("P{}", i)})),
        3 => (0u8..4).prop_map(|i| json!({"+": [format!("x{}", i)]})),
        1 => Just(json!({"==": [1]})),
        1 => Just(json!({"/": [1]})),
        1 => Just(json!({"<": 3})),
        1 => Just(json!({"var": [1, 2, 3]})),
        1 => Just(json!({"substr": ["abc"]})),
    ]
    .boxed()
}

pub fn var_leaf(keys: &[&'static str]) -> VS {
    let keys: Vec<&'static str> = keys.to_vec();
    prop_oneof![
        6 => select(keys.clone()).prop_map(|k| json!({"var": k})),
        2 => select(keys.clone()).prop_map(|k| json!({"var": [k]})),
        1 => Just(json!({"var": ""})),
        1 => Just(json!({"var": []})),
        1 => (select(keys.clone()), select(keys)).prop_map(|(a, b)| json!({"var": format!("{}.{}", a, b)})),
        1 => (-3i64..4).prop_map(|i| json!({"var": i})),
    ]
    .boxed()
}

fn wrap(name: &'static str, operands: Value) -> Value {
    let mut m = Map::new();
    m.insert(name.to_string(), operands);
    Value::Object(m)
}

fn list(name: &'static str, items: BoxedStrategy<Vec<Value>>) -> VS {
    items.prop_map(move |v| wrap(name, Value::Array(v))).boxed()
}

fn collection(inner: VS) -> VS {
    prop_oneof![
        4 => vec(inner.clone(), 0..=4).prop_map(Value::Array),
        3 => select(vec!["xs", "a", "b", "c", "a.b", "x\\y", "xs.0", "a.xs"]).prop_map(|k| json!({"var": k})),
        2 => vec(inner.clone(), 0..=3).prop_map(|v| json!({"merge": v})),
        1 => Just(Value::Null),
        1 => inner,
    ]
    .boxed()
}

fn key_expr(keys: &[&'static str]) -> VS {
    let keys: Vec<&'static str> = keys.to_vec();
    let keys2 = keys.clone();
    prop_oneof![
        8 => select(keys.clone()).prop_map(|k| j(k)),
        2 => (select(keys.clone()), select(keys)).prop_map(|(a, b)| j(format!("{}.{}", a, b))),
        2 => (-3i64..4).prop_map(j),
        1 => Just(Value::Null),
        // odd spellings: the result is not determined (zone U2) but evaluation must still terminate
        1 => (select(keys2.clone()), select(vec!["\\", ".", "\\\\\\", "..", ".\\"])).prop_map(|(a, t)| j(format!("{}{}", a, t))),
        1 => (select(keys2.clone()), select(keys2)).prop_map(|(a, b)| j(format!("{}.{}\\", a, b))),
    ]
    .boxed()
}

/// One operator node over `inner` operands.
pub fn op_node(name: &'static str, inner: VS, cfg: &Cfg) -> VS {
    let i = inner.clone();
    let good: VS = match name {
        "==" | "!=" | "===" | "!==" | "/" | "%" => list(name, vec(i, 2..=2).boxed()),
        "in" => (inner.clone(), prop_oneof![3 => vec(inner.clone(), 0..=4).prop_map(Value::Array), 2 => inner.clone()]).prop_map(move |(a, b)| wrap(name, json!([a, b]))).boxed(),
        "!" | "!!" | "log" => prop_oneof![3 => list(name, vec(i.clone(), 1..=1).boxed()), 1 => i.prop_map(move |x| wrap(name, x))].boxed(),
        "<" | "<=" | ">" | ">=" => list(name, vec(i, 2..=3).boxed()),
        // also written without brackets around a single (possibly array-valued) operand expression
        "+" | "cat" | "merge" => prop_oneof![7 => list(name, vec(i.clone(), 0..=4).boxed()), 1 => i.prop_filter("bracket-less operand must not be an array literal", |x| !x.is_array()).prop_map(move |x| wrap(name, x))].boxed(),
        "*" | "max" | "min" => prop_oneof![7 => list(name, vec(i.clone(), 1..=4).boxed()), 1 => i.prop_filter("bracket-less operand must not be an array literal", |x| !x.is_array()).prop_map(move |x| wrap(name, x))].boxed(),
        "-" => list(name, vec(i, 1..=2).boxed()),
        "substr" => {
            let subject = prop_oneof![3 => super::texts(8).prop_map(j), 2 => inner.clone()];
            let idx = prop_oneof![4 => (-10i64..=10).prop_map(j), 1 => super::ints()];
            prop_oneof![
                3 => (subject.clone(), idx.clone()).prop_map(move |(s, a)| wrap(name, json!([s, a]))),
                3 => (subject, idx.clone(), idx).prop_map(move |(s, a, b)| wrap(name, json!([s, a, b]))),
                1 => list(name, vec(i, 2..=3).boxed()),
            ]
        }
        .boxed(),
        "var" => {
            let k = key_expr(&cfg.var_keys);
            prop_oneof![
                4 => k.clone().prop_map(move |k| wrap(name, k)),
                2 => k.clone().prop_map(move |k| wrap(name, json!([k]))),
                3 => (k.clone(), inner.clone()).prop_map(move |(k, d)| wrap(name, json!([k, d]))),
                1 => Just(wrap(name, json!([]))),
                1 => inner.clone().prop_map(move |e| wrap(name, json!([e]))),
            ]
            .boxed()
        }
        "missing" => {
            let k = key_expr(&cfg.var_keys);
            prop_oneof![
                3 => vec(k.clone(), 0..=4).prop_map(move |v| wrap(name, Value::Array(v))),
                2 => vec(k.clone(), 0..=4).prop_map(move |v| wrap(name, json!([v]))),
                1 => vec(k.clone(), 0..=3).prop_map(move |v| wrap(name, json!({"merge": [v]}))),
                1 => k.clone().prop_map(move |v| wrap(name, v)),
                // key lists that are computed from the data
                1 => (vec(k.clone(), 0..=2), inner.clone()).prop_map(move |(v, e)| wrap(name, json!({"merge": [v, e]}))),
                1 => (inner.clone(), k).prop_map(move |(e, v)| wrap(name, json!([e, v]))),
            ]
            .boxed()
        }
        "missing_some" => {
            let k = key_expr(&cfg.var_keys);
            prop_oneof![
                4 => (0u64..5, vec(k.clone(), 0..=4), any::<bool>()).prop_map(move |(n, keys, computed)| if computed { wrap(name, json!([n, {"merge": [keys]}])) } else { wrap(name, json!([n, keys])) }),
                // threshold and key list computed from the data
                1 => (inner.clone(), vec(k.clone(), 0..=3)).prop_map(move |(n, keys)| wrap(name, json!([{"+": [n, 0]}, keys]))),
                1 => (0u64..4, vec(k, 0..=2), inner.clone()).prop_map(move |(n, keys, e)| wrap(name, json!([n, {"merge": [keys, e]}]))),
            ]
            .boxed()
        }
        "if" | "?:" => list(name, vec(i, 0..=6).boxed()),
        "and" | "or" => prop_oneof![7 => list(name, vec(i.clone(), 1..=4).boxed()), 1 => i.prop_filter("bracket-less operand must not be an array literal", |x| !x.is_array()).prop_map(move |x| wrap(name, x))].boxed(),
        "map" | "filter" | "all" | "some" | "none" => (collection(inner.clone()), inner.clone()).prop_map(move |(c, e)| wrap(name, json!([c, e]))).boxed(),
        "reduce" => (collection(inner.clone()), inner.clone(), inner.clone()).prop_map(move |(c, e, z)| wrap(name, json!([c, e, z]))).boxed(),
        _ => list(name, vec(i, 0..=3).boxed()),
    };
    if cfg.bad_arity_pm == 0 {
        return good;
    }
    let bad: VS = prop_oneof![3 => list(name, vec(inner.clone(), 0..=6).boxed()), 1 => inner.prop_map(move |x| wrap(name, x))].boxed();
    prop_oneof![(1000 - cfg.bad_arity_pm) => good, cfg.bad_arity_pm => bad].boxed()
}

/// Random expressions over the configured vocabulary.
pub fn expr(cfg: Cfg) -> VS {
    let mut leaves: Vec<(u32, VS)> = vec![(6, cfg.leaf.clone())];
    if cfg.var_w > 0 {
        leaves.push((cfg.var_w, var_leaf(&cfg.var_keys)));
    }
    if cfg.poison_w > 0 {
        leaves.push((cfg.poison_w, poison()));
    }
    let leaf: VS = Union::new_weighted(leaves).boxed();
    let cfg2 = cfg.clone();
    leaf.prop_recursive(cfg.depth, cfg.size, 4, move |inner| {
        let nodes: Vec<VS> = cfg2.vocab.iter().map(|name| op_node(name, inner.clone(), &cfg2)).collect();
        Union::new(nodes).boxed()
    })
    .boxed()
}

/// An expression whose root is an operator of the vocabulary (never a bare leaf).
pub fn rooted(cfg: Cfg) -> VS {
    let inner = expr(cfg.clone());
    let nodes: Vec<VS> = cfg.vocab.iter().map(|name| op_node(name, inner.clone(), &cfg)).collect();
    Union::new(nodes).boxed()
}
