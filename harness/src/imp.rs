//! Calling the implementation under test: panic-safe, with the `log` trace.

use crate::capture;
use serde_json::Value;
use std::cell::RefCell;
use std::panic::{self, AssertUnwindSafe};
use std::sync::Once;

thread_local! {
    static LAST_PANIC: RefCell<Option<String>> = RefCell::new(None);
}
static HOOK: Once = Once::new();

pub fn install_panic_hook() {
    HOOK.call_once(|| {
        panic::set_hook(Box::new(|info| {
            let msg = if let Some(s) = info.payload().downcast_ref::<&str>() {
                s.to_string()
            } else if let Some(s) = info.payload().downcast_ref::<String>() {
                s.clone()
            } else {
                "<non-string panic payload>".to_string()
            };
            let loc = info.location().map(|l| format!(" at {}:{}", l.file(), l.line())).unwrap_or_default();
            LAST_PANIC.with(|p| *p.borrow_mut() = Some(format!("{}{}", msg, loc)));
        }));
    });
}

#[derive(Debug, Clone, PartialEq)]
pub enum Out {
    Ok(Value),
    Err(String),
    Panic(String),
}

impl Out {
    pub fn short(&self) -> String {
        match self {
            Out::Ok(v) => format!("Ok({})", v),
            Out::Err(e) => format!("Err({})", e.chars().take(120).collect::<String>()),
            Out::Panic(m) => format!("PANIC({})", m),
        }
    }
    pub fn is_panic(&self) -> bool {
        matches!(self, Out::Panic(_))
    }
}

/// Run any closure against the library, converting a panic into `Err(message)`.
pub fn guarded<T>(f: impl FnOnce() -> T) -> Result<T, String> {
    install_panic_hook();
    LAST_PANIC.with(|p| *p.borrow_mut() = None);
    match panic::catch_unwind(AssertUnwindSafe(f)) {
        Ok(v) => Ok(v),
        Err(_) => Err(LAST_PANIC.with(|p| p.borrow_mut().take()).unwrap_or_else(|| "<unknown panic>".to_string())),
    }
}

/// CPU clock (ms) at which the implementation call in progress started, 0 when none is in progress: the hang watchdog
/// measures the code under test, not the oracle around it.
pub static IMPL_STARTED_CPU_MS: std::sync::atomic::AtomicU64 = std::sync::atomic::AtomicU64::new(0);

pub fn cpu_ms() -> u64 {
    unsafe {
        let mut ts: libc::timespec = std::mem::zeroed();
        libc::clock_gettime(libc::CLOCK_PROCESS_CPUTIME_ID, &mut ts);
        (ts.tv_sec as u64) * 1000 + (ts.tv_nsec as u64) / 1_000_000
    }
}

struct ImplTimer;
impl ImplTimer {
    fn start() -> ImplTimer {
        IMPL_STARTED_CPU_MS.store(cpu_ms().max(1), std::sync::atomic::Ordering::SeqCst);
        ImplTimer
    }
}
impl Drop for ImplTimer {
    fn drop(&mut self) {
        IMPL_STARTED_CPU_MS.store(0, std::sync::atomic::Ordering::SeqCst);
    }
}

/// `jsonlogic_rs::apply` without trace capture.
pub fn apply(rule: &Value, data: &Value) -> Out {
    let _t = ImplTimer::start();
    // the error is rendered inside the guard: its Display is what the CLI and the Python module show
    match guarded(|| jsonlogic_rs::apply(rule, data).map_err(|e| (e.to_string(), format!("{:?}", e).len()))) {
        Ok(Ok(v)) => Out::Ok(v),
        Ok(Err((text, _))) => Out::Err(text),
        Err(m) => Out::Panic(m),
    }
}

pub struct Traced {
    pub out: Out,
    /// stdout lines written during the call
    pub lines: Vec<String>,
    /// false if stdout did not end with a newline
    pub complete: bool,
    pub stderr: Vec<u8>,
}

/// `jsonlogic_rs::apply` with everything it wrote to fd 1 / fd 2.
pub fn apply_traced(rule: &Value, data: &Value) -> Traced {
    let (out, so, se) = capture::observe(|| apply(rule, data));
    let (lines, complete) = capture::lines(&so);
    Traced { out, lines, complete, stderr: se }
}
