#![no_main]
// implementation vs single-pass reference model on structured inputs (semantic oracle inside the target)
use libfuzzer_sys::fuzz_target;

fuzz_target!(|data: &[u8]| {
    if let Err(msg) = jlverif::fuzzbody::diff(data) {
        eprintln!("FZ_VIOLATION {}", msg);
        std::process::abort();
    }
});
