#![no_main]
// C01 at the literal text boundary; the body lives in the harness library so the quick tier replays the corpus through it.
use libfuzzer_sys::fuzz_target;

fuzz_target!(|data: &[u8]| {
    if let Err(msg) = jlverif::fuzzbody::total(data) {
        eprintln!("FZ_VIOLATION {}", msg);
        std::process::abort();
    }
});
