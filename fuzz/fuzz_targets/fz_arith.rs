#![no_main]
// one operator application of the family with fuzzer-written operand texts: implementation vs reference model
use libfuzzer_sys::fuzz_target;

fuzz_target!(|data: &[u8]| {
    let fam = jlverif::fuzzbody::family_of("fz_arith").unwrap();
    if let Err(msg) = jlverif::fuzzbody::family(fam, data) {
        eprintln!("FZ_VIOLATION {}", msg);
        std::process::abort();
    }
});
