#!/usr/bin/env python3
"""Regenerates MANIFEST.json from the table below (keeps it valid while properties are added)."""
import json, sys
CLAIMED = {
 "C01": ("generated extreme operands (64-bit boundaries, long multi-byte strings, numeric-string traps), wild documents, enumerated and generated 126-deep documents on a 2 MiB stack, all public js_op helpers, the real CLI (dev + release) and the Python extension (dev + release), libFuzzer corpus replay (campaign in the thorough tier), in overflow-checked and release profiles; oracle = no panic / abort / stack overflow / death of the worker, at most 20 s of CPU for a case the reference model finds cheap, result is Ok or Err and serialises", "proptest generated-input search + libFuzzer corpus replay; oracle = catch_unwind, worker exit status, CPU watchdog"),
 "C02": ("generated non-operation values (near-miss keys, multi-key and all-operator-key objects, poison inside literals, literals nested beyond 128 levels, objects keyed by 150 names a new operator would plausibly get or made of an operation plus an annotation member) must come back identical at top level and as returned operands of or / and / if / defaults / reduce / map; per-operator dispatch discriminated against the reference model", "proptest; oracle = identity law + reference-model differential"),
 "C03": ("complete 35 x 7 arity grid x 8 operand variants, operand counts up to 65539, wrong-arity operations in every evaluated position; bracket-less law {op:x} == {op:[x]} on a grid and generated, at the top of a rule and in eleven evaluated positions", "proptest + enumerated grid; oracle = documented arity table, metamorphic bracket law"),
 "C04": ("operation-shaped data routed through every value-carrying path; single-pass reference model on value and log trace; substitution law for eager operators; tagged-log evaluation counts", "proptest; oracle = reference-model differential + metamorphic substitution law"),
 "C05": ("generated if/?:/and/or operand lists with poisoned operands; exact value and exact log-order against the model; ?: == if; CLI leg", "proptest; oracle = reference model (value + exact trace), alias law"),
 "C06": ("corner values x 3 routes x 11 truthiness positions enumerated, plus generated values; all positions must agree with the table transcribed from the statement", "proptest + enumerated matrix; oracle = truthiness table"),
 "C07": ("48k value pairs and 62k numeric strings with results recorded from a real JavaScript engine, plus generated pairs against an ECMA-262 model; symmetry, negation, helper == operator; replay of the distilled libFuzzer corpus of fz_eq (campaign in the thorough tier)", "proptest + recorded-ground-truth differential + libFuzzer (coverage-guided, oracle in target); oracle = ECMA-262 abstract equality model"),
 "C08": ("recorded JavaScript === bits, generated pairs (number spellings, adjacent doubles, clones), same-reference operands; negation, symmetry, === implies ==; replay of the distilled libFuzzer corpus of fz_seq (campaign in the thorough tier)", "proptest + recorded-ground-truth differential + libFuzzer; oracle = strict equality model"),
 "C09": ("recorded JavaScript relational bits, 62k numeric strings against numbers, generated pairs and triples; mirror laws and between = conjunction; replay of the distilled libFuzzer corpus of fz_rel (campaign in the thorough tier)", "proptest + recorded-ground-truth differential + libFuzzer; oracle = ECMA-262 relational model, metamorphic laws"),
 "C10": ("generated operand tuples incl. 2^53 / 2^63 / 2^64 boundaries, numeric-string grammar, coerced containers; exact double and spelling class against the model; recorded JS Number()/parseFloat() through - and +; radix literals built on rounding boundaries with the value known by construction; compositions of operators over leaves with inexact intermediate results (rounding after every operator: no fused multiply-add, re-association or other algebraic shortcut); replay of the distilled libFuzzer corpus of fz_arith (campaign in the thorough tier)", "proptest + recorded-ground-truth differential + libFuzzer; oracle = IEEE-754 reference fold"),
 "C11": ("data trees with walks built by construction (present / absent / perturbed), escapes, negative and string indices, defaults; model resolution plus the frame law (unrelated data never matters); replay of the distilled libFuzzer corpus of fz_path (campaign in the thorough tier)", "proptest + libFuzzer; oracle = reference resolution + metamorphic frame property"),
 "C12": ("key lists with duplicates, dotted, integer and null keys, literal and computed, thresholds 0..n+1; missing(k) iff var with a sentinel default returns the sentinel; replay of the distilled libFuzzer corpus of fz_missing (campaign in the thorough tier)", "proptest + libFuzzer; oracle = model-free var/sentinel differential + reference model"),
 "C13": ("collections literal / computed / null / non-array, order-sensitive and scope-probing expressions, nested higher-order operators; model plus length / subsequence / fold-order / scope laws", "proptest; oracle = reference model + algebraic laws"),
 "C14": ("literal arrays with expression elements and poison after the deciding element, computed arrays, strings incl. astral characters, null, other types; model, dualities, short-circuit via trace", "proptest; oracle = reference model + duality laws"),
 "C15": ("merge operand lists nested 0-3 deep; in with re-spelled numbers, nested containers, key order, non-ASCII substrings; model plus length / order laws; replay of the distilled libFuzzer corpus of fz_coll (campaign in the thorough tier)", "proptest + libFuzzer; oracle = reference model + algebraic laws"),
 "C16": ("all strings up to length 3 over a mixed-width alphabet x start/length -5..5 enumerated, generated strings with 64-bit extremes; char-vector model, split law substr(s,0,i)++substr(s,i)==s, cat piecewise law; positions beyond the signed 64-bit range give an error or the clamped slice; strings of 2^8 / 2^12 / 2^16 (+-1) characters; replay of the distilled libFuzzer corpus of fz_str (campaign in the thorough tier)", "proptest + enumerated cube + libFuzzer; oracle = character-vector model + metamorphic laws"),
 "C17": ("generated call histories (pools of rules and data, repeats, clones, concurrent batches on shared values, reversed re-run) in a never-reset worker process, log storms from 4-8 threads, deep rules evaluated by up to 16 threads at once, sequences of freshly parsed and freed same-length inputs, comparison with a fresh process, and a fresh process under a hostile environment (every ALL-CAPS identifier of the binary set, other locale / time zone / directory): every call equals its isolated result and the model, inputs unchanged, stdout exactly the intact log lines, stderr empty", "proptest over histories (vec of ops + interpreter); oracle = isolation / determinism invariants + reference model"),
 "C18": ("generated rule/data texts (valid, invalid, log, leading minus, whitespace) x three data channels against the in-process library; exit codes, stdout lines, chaining; working directory holding files named like the arguments; standard output on a pseudo-terminal", "proptest driving the real binary; oracle = in-process library differential"),
 "C19": ("Hypothesis-generated JSON-representable Python objects (big ints, nan / inf, astral text, lone surrogates, long strings, dictionaries with int / float / bool / None keys of mixed types), both entry points, all combinations of omitted / supplied optional arguments, malformed texts, in-interpreter histories over ==-equal scalars, dev and release builds of the extension; against the library linked into an oracle server, type- and sign-strict; the caller's objects must be unchanged after a call; calls repeated with every ALL-CAPS identifier of the module set in os.environ", "Hypothesis; oracle = library differential via oracle server, exception-type contract"),
}
DONE = sys.argv[1:]  # property ids implemented so far
checks=[]; na=[]
for pid,(text,tech) in CLAIMED.items():
    if pid in DONE:
        checks.append({
            "property_id": pid,
            "quick_cmd": f"./check {pid} quick",
            "thorough_cmd": f"./check {pid} thorough",
            "evidence_file": f"/verif/evidence/{pid}.json",
            "replay_cmd_template": f"./check {pid} --replay {{path}}",
            "engine": "jlverif",
            "level_claimed": {"category": "exploration", "text": "Generated-input search with shrinking: " + text + ". It shows no counter-example exists among the generated cases of these shapes; it never establishes absence.", "design_ref": f"DESIGN.md section 5 ({pid})"},
            "level_note": "Trusted: rustc/std f64 arithmetic and parsing, serde_json, proptest, the recorded JavaScript corpus (Node 20), the reference model (self-tested at every run against the repository's examples and that corpus). Zones the properties leave open (U1-U14, DESIGN.md 2.2) are skipped and counted.",
            "technique": tech,
        })
    else:
        na.append({"property_id": pid, "reason": "check not yet implemented in this snapshot (planned: " + tech + ")"})
m={
 "version": 1,
 "setup_cmd": "./setup.sh",
 "hooks": {
  "guard": "none (no source hooks: the only side effect, println! in log, is observed by redirecting fd 1 of the harness worker onto a memfd)",
  "enable": "n/a - checks build /repo unmodified (path dependency / cargo build --features cmdline|python from the working tree)",
  "baseline_off_cmd": "cd /repo && cargo test --workspace --no-fail-fast --offline",
  "source_commits": [],
  "add_only": True
 },
 "engines": [
  {"name": "jlverif", "path": "/verif/harness", "serves_properties": sorted(DONE), "kind_free_text": "Rust proptest harness: strategies -> reference-model / metamorphic oracles, 16 worker processes, shrinking to replay files; drives the CLI binary; spawns the Hypothesis leg"},
  {"name": "py", "path": "/verif/py", "serves_properties": [p for p in ["C01","C19"] if p in DONE], "kind_free_text": "Hypothesis harness for the Python module (runs under python3-vt)"},
  {"name": "fuzz", "path": "/verif/fuzz", "serves_properties": [p for p in ["C01","C04","C07","C08","C09","C10","C11","C12","C15","C16"] if p in DONE], "kind_free_text": "cargo-fuzz/libFuzzer targets fz_total (C01), fz_diff (C04) and eight operator-family targets (campaigns in the thorough tier; corpora replayed in the quick tier)"}
 ],
 "checks": checks,
 "not_applicable": na,
 "notes": "Fix commits in /repo (message prefix 'fix:') are listed in known_findings.json as fixed entries; there are no open findings. ./check <Cxx> --replay <file> re-executes a saved case."
}
# all 19 properties are claimed: the list is kept, empty, so that a reader sees it was considered
json.dump(m, open("/verif/MANIFEST.json","w"), indent=1)
print("claimed", len(checks), "n/a", len(na))
