#!/bin/bash
# tools/try_patch.sh <patch.diff> <Cxx> [<Cxx>...]   apply a patch to /repo, run the quick checks, always revert.
# Sensitivity testing only (never registered in MANIFEST).
patch="$(realpath "$1")"; shift
cd /repo || exit 2
if ! git diff --quiet; then echo "refusing: /repo has uncommitted changes"; exit 2; fi
git apply "$patch" || { echo "patch does not apply"; exit 2; }
trap 'git -C /repo checkout -- . ; git -C /repo clean -fdq -- src py tests 2>/dev/null' EXIT
for id in "$@"; do
  out=$(cd /verif && ./check "$id" "${TIER:-quick}" 2>&1); code=$?
  echo "== $id exit=$code"; echo "$out" | grep -E "VIOLATION|sub-check|INCONCLUSIVE|KNOWN" | head -6
done
