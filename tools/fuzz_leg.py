#!/usr/bin/env python3
"""Coverage-guided campaign leg of the thorough tier (spawned by the orchestrator for C01 -> fz_total, C04 -> fz_diff).

    fuzz_leg.py --target fz_total --seed N --out <result.json> [--seconds 120] [--forks 16]

Builds the cargo-fuzz target offline with the nightly toolchain (ASan, debug assertions and overflow checks on),
runs libFuzzer in fork mode from a fresh corpus directory seeded with fuzz/seeds/<target>, and writes a
worker-result JSON (same format as the Rust workers): executions, coverage, and every crash artifact as a violation
whose case is the input (hex), so that it can be replayed with ./check <Cxx> --replay.
A build failure or a missing toolchain is reported as oracle_broken (=> exit 2, inconclusive), never as a violation.
"""
import argparse
import json
import os
import re
import shutil
import subprocess
import sys
import time

ap = argparse.ArgumentParser()
ap.add_argument("--target", required=True)
ap.add_argument("--seed", type=int, default=1)
ap.add_argument("--out", required=True)
ap.add_argument("--seconds", type=int, default=int(os.environ.get("JLV_FUZZ_SECONDS", "120")))
ap.add_argument("--forks", type=int, default=int(os.environ.get("JLV_FUZZ_FORKS", "16")))
args = ap.parse_args()

ROOT = os.environ.get("JLV_ROOT", "/verif")
SUB = args.target + "_campaign"
res = {"cases": 0, "evals": 0, "nontrivial": 0, "fixed_cases": 0, "classes": {}, "unspec": {}, "known": {}, "samples": [], "violations": [], "hash_file": "", "hashes": []}


def finish():
    tmp = args.out + ".tmp"
    json.dump({SUB: res}, open(tmp, "w"))
    os.replace(tmp, args.out)
    sys.exit(0)


def broken(msg):
    res["violations"].append({"case_text": "null", "msg": "oracle_broken: " + msg, "oracle_broken": True})
    finish()


env = dict(os.environ, CARGO_NET_OFFLINE="true", RUST_BACKTRACE="0")
target_dir = os.path.join(ROOT, "target", "fuzz")
build = subprocess.run(["cargo", "+nightly", "fuzz", "build", "--fuzz-dir", os.path.join(ROOT, "fuzz"), "--target-dir", target_dir, args.target], env=env, stdout=subprocess.PIPE, stderr=subprocess.STDOUT, text=True)
if build.returncode != 0:
    broken("cargo +nightly fuzz build failed: " + build.stdout[-600:])
binary = os.path.join(target_dir, "x86_64-unknown-linux-gnu", "release", args.target)
if not os.path.exists(binary):
    broken("fuzz binary not found at " + binary)

work = os.path.join(ROOT, "target", "fuzz-run", "%s-%d" % (args.target, os.getpid()))
shutil.rmtree(work, ignore_errors=True)
corpus = os.path.join(work, "corpus")
arts = os.path.join(work, "artifacts")
os.makedirs(corpus)
os.makedirs(arts)
seeds = os.path.join(ROOT, "fuzz", "seeds", args.target)
# a `.pack` file holds one hex-encoded input per line: unpack into the fresh corpus directory
for name in sorted(os.listdir(seeds)) if os.path.isdir(seeds) else []:
    if name.endswith(".pack"):
        for i, line in enumerate(open(os.path.join(seeds, name))):
            line = line.strip()
            if line:
                open(os.path.join(corpus, "pack-%05d" % i), "wb").write(bytes.fromhex(line))
cmd = [binary, "-fork=%d" % args.forks, "-max_total_time=%d" % args.seconds, "-seed=%d" % (args.seed % (2**31 - 1) or 1), "-max_len=512", "-len_control=0", "-timeout=60", "-rss_limit_mb=4096",
       "-ignore_crashes=1", "-artifact_prefix=" + arts + "/", "-dict=" + os.path.join(ROOT, "fuzz", "dict.txt"), corpus, seeds]
t0 = time.time()
run = subprocess.run(cmd, env=env, stdout=subprocess.PIPE, stderr=subprocess.STDOUT, text=True, errors="replace", cwd=work)
wall = time.time() - t0
log = run.stdout
execs = 0
cov = 0
for m in re.finditer(r"#(\d+): cov: (\d+) ft: (\d+) corp: (\d+)", log):
    execs = max(execs, int(m.group(1)))
    cov = max(cov, int(m.group(2)))
corp_files = len(os.listdir(corpus))
res["cases"] = execs
res["evals"] = execs
res["classes"] = {"executions": execs, "coverage_edges": cov, "corpus_files_at_end": corp_files, "seconds": int(wall), "forks": args.forks}
# non-trivial = distinct coverage-increasing inputs kept by libFuzzer (each exercises new code); counted, hashed by content
hashes = set()
for name in sorted(os.listdir(corpus))[:200000]:
    p = os.path.join(corpus, name)
    try:
        b = open(p, "rb").read()
    except OSError:
        continue
    h = 0xCBF29CE484222325
    for byte in b:
        h ^= byte
        h = (h * 0x100000001B3) & 0xFFFFFFFFFFFFFFFF
    hashes.add(h)
    if len(res["samples"]) < 4 and len(b) < 200:
        res["samples"].append({"class": "coverage-increasing corpus input", "case_text": json.dumps({"target": args.target, "file": name, "hex": b.hex()})})
res["hashes"] = sorted(hashes)
res["nontrivial"] = len(hashes)
# crash / timeout / oom artifacts: each is confirmed by running the target on that single input again (a wall-clock
# timeout or an out-of-memory kill on a loaded machine does not reproduce; a disagreement with the oracle or a panic does)
unconfirmed = 0
for name in sorted(os.listdir(arts)):
    p = os.path.join(arts, name)
    b = open(p, "rb").read()
    kind = name.split("-")[0]
    try:
        again = subprocess.run([binary, "-timeout=120", "-rss_limit_mb=4096", p], env=env, stdout=subprocess.PIPE, stderr=subprocess.STDOUT, text=True, errors="replace", cwd=work, timeout=600)
        reproduced, out2 = again.returncode != 0, again.stdout
    except subprocess.TimeoutExpired:
        reproduced, out2 = True, ""
    if not reproduced:
        unconfirmed += 1
        continue
    msg = "libFuzzer %s artifact in the %s campaign, reproduced on a single-input run" % (kind, args.target)
    m = re.search(r"FZ_VIOLATION ([^\n]{0,600})", out2)
    if m:
        msg += ": %s" % m.group(1)
    if kind == "timeout":
        msg += "; the input is cheap for the reference model but exceeded the time limit in the implementation twice"
    if len(res["violations"]) < 5:
        res["violations"].append({"case_text": json.dumps({"target": args.target, "file": name, "hex": b.hex()}), "msg": msg, "from": "libFuzzer campaign"})
if unconfirmed:
    res["classes"]["artifacts_not_reproduced"] = unconfirmed
if execs == 0 and not res["violations"]:
    broken("libFuzzer made no executions: " + log[-600:])
shutil.rmtree(work, ignore_errors=True)
finish()
