#!/usr/bin/env python3
"""sweep_report.py results*.jsonl > seeded/SWEEP.md  - table of a tools/mutate_sweep.py run (sensitivity tooling)."""
import collections
import json
import sys

rows = []
for f in sys.argv[1:]:
    for l in open(f):
        l = l.strip()
        if l:
            r = json.loads(l)
            if r.get("verdict") != "stale":
                rows.append(r)
rows.sort(key=lambda r: (r["file"], r["line"], r["id"]))
c = collections.Counter(r["verdict"] for r in rows)
surv = sum(v for k, v in c.items() if k.startswith("SURVIVOR"))
caught = sum(v for k, v in c.items() if k.startswith("C"))
print("# Systematic single-token mutation sweep (tools/mutate_sweep.py)\n")
print("%d mutants: %d do not compile, %d are rejected by the repository's own suite, %d pass it and are reported by a quick check, %d survive the checks named for their file plus C01 / C03 / C04 / C17 (analysed in DESIGN.md D.4).\n" % (
    len(rows), c.get("nocompile", 0), c.get("repo_tests", 0), caught, surv))
print("By first catching check: " + ", ".join("%s %d" % (k, v) for k, v in sorted(c.items()) if k.startswith("C")) + "\n")
print("## Mutants that pass the repository's suite\n")
print("| id | site | kind | change | verdict |")
print("|---|---|---|---|---|")
for r in rows:
    if r["verdict"] in ("nocompile", "repo_tests"):
        continue
    esc = lambda s: s.replace("|", "\\|").replace("`", "'")[:110]
    print("| %s | %s:%d | %s | `%s` -> `%s` | %s |" % (r["id"], r["file"], r["line"], r["kind"], esc(r["old"]), esc(r["new"]), r["verdict"]))
