#!/bin/bash
# tools/coverage.sh [Cxx ...]  - line / region coverage of /repo/src reached by the quick tier (sensitivity tooling, never
# registered): builds the harness with -C instrument-coverage (nightly, for the matching llvm-tools), runs the quick checks
# with the instrumented binary and prints llvm-cov's report plus every source line that was never executed.
set -u
ROOT="$(cd "$(dirname "$0")/.." && pwd)"; REPO="${JLV_REPO:-/repo}"
props="${*:-C02 C03 C04 C05 C06 C07 C08 C09 C10 C11 C12 C13 C14 C15 C16 C17}"
B="$(dirname "$(find ~/.rustup/toolchains/nightly-x86_64-unknown-linux-gnu -name llvm-cov | head -1)")"
OUT="$ROOT/target/coverage"; rm -rf "$OUT"; mkdir -p "$OUT"
( cd "$ROOT/harness" && CARGO_NET_OFFLINE=true RUSTFLAGS="-C instrument-coverage" cargo +nightly build --profile checked --target-dir "$ROOT/target/cov" ) >"$OUT/build.log" 2>&1 || { tail -20 "$OUT/build.log"; exit 2; }
export JLV_ROOT="$ROOT" JLV_REPO="$REPO" JLV_PROFILE=checked LLVM_PROFILE_FILE="$OUT/%p-%m.profraw"
export JLV_CLI_DEV="$ROOT/target/cli/debug/jsonlogic" JLV_CLI_RELEASE="$ROOT/target/cli/release/jsonlogic"
for p in $props; do "$ROOT/target/cov/checked/jlverif" run "$p" quick >"$OUT/$p.log" 2>&1; echo "$p exit $?"; done
"$B/llvm-profdata" merge -sparse "$OUT"/*.profraw -o "$OUT/all.profdata"
"$B/llvm-cov" report "$ROOT/target/cov/checked/jlverif" -instr-profile="$OUT/all.profdata" "$REPO/src" | cut -c1-120
echo "--- lines never executed:"
"$B/llvm-cov" show "$ROOT/target/cov/checked/jlverif" -instr-profile="$OUT/all.profdata" "$REPO/src" --show-line-counts-or-regions=false 2>/dev/null \
  | awk '/\/src\// && /:$/ {file=$0} /^ *[0-9]+\| *0\|/ {print file " " $0}' | cut -c1-170
rm -f "$OUT"/*.profraw
