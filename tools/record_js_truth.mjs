// Provenance only: run ONCE at implementation time with Node (v20) to record ECMAScript ground truth
// into corpus/.  No registered check depends on node.
//   node tools/record_js_truth.mjs
import fs from 'node:fs';

const bits = (x) => {
  const b = Buffer.alloc(8);
  b.writeDoubleBE(x);
  return b.toString('hex');
};

// ---------------------------------------------------------------- ToNumber / parseFloat on strings
const strings = new Set();
for (const line of fs.readFileSync('notes/tonumber-probe-strings.jsonl', 'utf8').split('\n')) {
  if (line.trim() !== '') strings.add(JSON.parse(line));
}
// radix literals, incl. long ones that need correct rounding, and long decimals (<= 20 significant digits)
const extra = [
  '0x', '0X', '0o', '0b', '0x1', '0X1F', '0xff', '0xFF', '0xfg', '0x 1', ' 0x10 ', '+0x10', '-0x10', '0x-10', '0x1.8', '0x1p3',
  '0o17', '0O17', '0o18', '0o8', '0b101', '0B101', '0b102', '0b', '00x10', '0x0x1', '0xe5', '0b1e1', '0o1e1',
  '0x20000000000001', '0x20000000000002', '0x20000000000003', '0x1fffffffffffff', '0x3fffffffffffff', '0x7fffffffffffff',
  '0x10000000000000080', '0x10000000000000081', '0x100000000000000800', '0x100000000000000801', '0x1000000000000008000000000000000001',
  '0x10000000000000180', '0x100000000000017f', '0xffffffffffffffff', '0xfffffffffffff800', '0xfffffffffffffbff', '0xfffffffffffffc00',
  '0x' + 'f'.repeat(255), '0x' + 'f'.repeat(256), '0x' + 'f'.repeat(257), '0x1' + '0'.repeat(255), '0x1' + '0'.repeat(256), '0x0' + '0'.repeat(300) + '1',
  '0b' + '1'.repeat(53), '0b' + '1'.repeat(54), '0b' + '1'.repeat(55), '0b1' + '0'.repeat(52) + '1', '0b1' + '0'.repeat(52) + '11', '0b1' + '0'.repeat(52) + '10' + '0'.repeat(40) + '1',
  '0b' + '1'.repeat(1024), '0b' + '1'.repeat(1023) + '0', '0b1' + '0'.repeat(1023), '0b1' + '0'.repeat(1024),
  '0o' + '7'.repeat(17), '0o' + '7'.repeat(18), '0o' + '7'.repeat(19), '0o1' + '0'.repeat(17) + '1', '0o4' + '0'.repeat(17) + '1', '0o2' + '0'.repeat(17) + '4', '0o2' + '0'.repeat(17) + '40000001',
  '9007199254740993', '9007199254740992', '9007199254740991', '18446744073709551615', '18446744073709551616', '9223372036854775807',
  '9223372036854775808', '-9223372036854775808', '-9223372036854775809', '1e308', '1.7976931348623157e308', '1.7976931348623158e308', '1.7976931348623159e308',
  '1.8e308', '2e308', '-1.8e308', '5e-324', '4.9e-324', '2.5e-324', '2.4e-324', '2.47e-324', '2.48e-324', '1e-400', '1e400', '-1e400',
  '0.1', '0.2', '0.30000000000000004', '123456789012345678', '12345678901234567890', '0.12345678901234567890', '1234567890.1234567890',
  '1e21', '1e-7', '1E5', '1e+5', '1e-5', '1.e5', '.5e1', '5.e-1', '0e0', '-0', '+0', '-0.0', '00', '007', '-007', '1.0', '1.50', '01.5',
  'Infinity', '+Infinity', '-Infinity', ' Infinity ', 'Infinityx', 'Infinit', 'infinity', 'INFINITY', 'inf', 'Inf', 'INF', '-inf', '+inf', 'nan', 'NaN', 'NAN', '-nan',
  'Infinity1', '-Infinity e', 'InfinityInfinity', '1Infinity', '1,2', '1 2', '1_0', '1__0', '12px', 'px12', '1-2', '1+2', '1e5.5', '1ee5', '1e', '1e+', '1e-', '.', '+', '-', '+.', '-.', 'e5', '.e5', '--1', '++1', '+-1', '-+1',
  '\u00851', '1\u0085', '᠎1', '1᠎', '​1', '﻿1﻿', ' 1 ', ' 1', ' 1 ', ' 1 ', ' 1 ', '　1', '\t\n\v\f\r 1',
  '0x+10', '0X+ff', '0o+17', '0b+11', '0x-1', '0b-1', '0o-7', '0x+', '0x-', '0x++1', ' 0x+A ', '0xffffffffffffffff', '0x10000000000000000', '0xfffffffffffffffff',
  '0o1777777777777777777777', '0o2000000000000000000000', '0o7777777777777777777777', '0o17777777777777777777777', '0o777777777777777777777', '0o3777777777777777777777',
  '0b' + '1'.repeat(63), '0b' + '1'.repeat(64), '0b' + '1'.repeat(65), '0b1' + '0'.repeat(63), '0b1' + '0'.repeat(64), '0x' + 'f'.repeat(15), '0x' + 'f'.repeat(16), '0x' + 'f'.repeat(17), '0x1' + '0'.repeat(16),
  '5.e3', '2.E-1', '-4.e+1', '1.e2px', '5.e', '5.e+', '.e3', '0.3', '0.10000000000000002', '1.0000000000000002', '0.9999999999999999', '0.30000000000000004', '1e-5', '0.00001', '0.00005', '1e-4',
  '١', '١٢', '１', '1١', '١٢٣', '1\u0000', '\u00001', '1\n2', 'true', 'false', 'null', 'undefined', '[object Object]', ',', ',,', '1,', ',1',
];
for (const s of extra) strings.add(s);
// random decimal literals with <= 20 significant digits and bounded exponents (deterministic LCG, not Math.random)
let state = 0x2545F4914F6CDD1Dn;
const rnd = (n) => { state = (state * 6364136223846793005n + 1442695040888963407n) & 0xFFFFFFFFFFFFFFFFn; return Number((state >> 33n) % BigInt(n)); };
for (let i = 0; i < 6000; i++) {
  const nd = 1 + rnd(20);
  let d = '';
  for (let k = 0; k < nd; k++) d += String(rnd(10));
  const point = rnd(nd + 2);
  let lit = point <= nd ? d.slice(0, point) + (rnd(3) ? '.' : '') + d.slice(point) : d;
  if (lit === '' || lit === '.') lit = '0';
  if (lit.endsWith('.') && rnd(2)) lit = lit.slice(0, -1);
  const e = rnd(4) === 0 ? '' : (rnd(2) ? 'e' : 'E') + ['', '+', '-'][rnd(3)] + String([rnd(30), rnd(330), 300 + rnd(30)][rnd(3)]);
  const sign = ['', '', '-', '+'][rnd(4)];
  strings.add(sign + lit + e);
}
{
  const out = [];
  for (const s of [...strings].sort()) {
    // lone surrogates cannot be represented in the JSON text Rust will read
    if (/[\ud800-\udfff]/.test(s) && !/^(?:[^\ud800-\udfff]|[\ud800-\udbff][\udc00-\udfff])*$/.test(s)) continue;
    out.push(JSON.stringify({ s, n: bits(Number(s)), p: bits(parseFloat(s)) }));
  }
  fs.writeFileSync('corpus/js_tonumber.jsonl', out.join('\n') + '\n');
  console.log('js_tonumber', out.length);
}

// ---------------------------------------------------------------- comparison bits on pairs of JSON values
// Each value is a JSON text; numbers inside containers are spelled so that JS String(n) equals the JSON text
// serde_json prints for them (plain integers below 2^53 and short decimal fractions), as the property states
// "a number's string form being its JSON text".
const values = [
  'null', 'true', 'false',
  '0', '-0.0', '1', '-1', '2', '3', '9', '10', '16', '8', '255', '100000', '1.5', '0.5', '-1.5', '0.1', '1e21', '1e-7', '9007199254740992', '9007199254740991',
  '1e308', '5e-324', '1.0', '2.0', '12', '-5', '1000000', '0.30000000000000004', '42',
  '""', '" "', '"  "', '"\\t\\n"', '"0"', '"1"', '" 1 "', '"1.0"', '"1e0"', '"1.5"', '"01"', '"+1"', '"-1"', '"--1"', '"1 "', '"\\n1\\t"', '"\\u00a01"', '"\\ufeff1"', '"\\u00851"', '"\\u180e1"',
  '"0x10"', '"0X1f"', '"0xff"', '"0o10"', '"0b11"', '"-0x10"', '"0x"', '"Infinity"', '"-Infinity"', '"+Infinity"', '"infinity"', '"inf"', '"-inf"', '"nan"', '"NaN"',
  '"null"', '"true"', '"false"', '"a"', '"b"', '"A"', '"ab"', '"abc"', '"10"', '"9"', '"2"', '"12"', '"100000"', '"1e5"', '"1E5"', '"1e"', '"1e+"', '".5"', '"5."', '"."', '"1,2"', '","', '",,"', '"1,"', '"[object Object]"',
  '"[object Object],[object Object]"', '"\ud83d\ude00"', '"\uf600"', '"\uff21"', '"A"', '"\ud800\udc41"', '"0.3"', '0.3', '"0.30000000000000004"', '"0.1"', '0.10000000000000002', '"1 2"', '"1_0"', '"12px"', '"é"', '"e"', '"日本"', '"日"', '"😀"', '"z"', '"~"', '"1e21"', '"1e-7"', '"0.5"', '"1e1000"', '"-1e1000"', '"9007199254740993"', '"a,b"', '"true,false"', '"0,0"', '"-0"', '"+0"', '"0.0"',
  '[]', '[0]', '[1]', '["1"]', '[1,2]', '[[]]', '[[1]]', '[null]', '[null,null]', '[""]', '[true]', '[false]', '["a"]', '[[1,2]]', '[{}]', '[10]', '[9]', '[1,[2]]', '["a","b"]', '[2]', '[12]', '[" 1 "]', '["0x10"]', '[0.5]', '[1.5]',
  '[{"k":"v"}]', '[["[object Object]"]]', '["[object Object]"]', '[[{}]]', '[0.3]', '[[[]]]', '[[],[]]', '[null,1]', '[1,null]', '["é"]', '[true,false]', '[0,0]', '[-1]', '["Infinity"]', '[[null]]', '[{},{}]', '["abc"]', '[100000]',
  '{}', '{"a":1}', '{"a":{"b":2}}', '{"a":1,"b":2}', '{"":0}',
];
const cpCompare = (a, b) => {
  const x = Array.from(a, (c) => c.codePointAt(0));
  const y = Array.from(b, (c) => c.codePointAt(0));
  for (let i = 0; i < Math.min(x.length, y.length); i++) if (x[i] !== y[i]) return x[i] < y[i] ? -1 : 1;
  return x.length === y.length ? 0 : x.length < y.length ? -1 : 1;
};
{
  const out = [];
  for (const ta of values) {
    for (const tb of values) {
      const a = JSON.parse(ta);
      const b = JSON.parse(tb); // fresh instance even when ta === tb
      // eslint-disable-next-line eqeqeq
      const rec = { a: ta, b: tb, eq: a == b, seq: a === b, lt: a < b, le: a <= b, gt: a > b, ge: a >= b };
      const stringLike = (v) => typeof v === 'string' || (typeof v === 'object' && v !== null);
      if (stringLike(a) && stringLike(b)) {
        // the property orders strings by code point; JS by UTF-16 unit. Drop the relational bits where they differ.
        const sa = String(a), sb = String(b);
        const u16 = sa < sb ? -1 : sa > sb ? 1 : 0;
        if (u16 !== cpCompare(sa, sb)) { rec.lt = rec.le = rec.gt = rec.ge = null; }
      }
      out.push(JSON.stringify(rec));
    }
  }
  fs.writeFileSync('corpus/js_truth_pairs.jsonl', out.join('\n') + '\n');
  console.log('js_truth_pairs', out.length, 'values', values.length);
}
// string forms: String(v) for containers/primitives in the list above (cat / ToPrimitive)
{
  const out = [];
  for (const t of values) {
    const v = JSON.parse(t);
    // numbers as primitives are excluded (the property defines their string form as the JSON text)
    if (typeof v === 'number') continue;
    out.push(JSON.stringify({ v: t, s: String(v), n: bits(Number(v)), p: bits(parseFloat(v)), truthy_js: !!v }));
  }
  fs.writeFileSync('corpus/js_string_forms.jsonl', out.join('\n') + '\n');
  console.log('js_string_forms', out.length);
}
