#!/bin/bash
# tools/benign_matrix.sh <dir-with-<name>/patch.diff ...>  - apply each behaviour-preserving change to /repo, run ALL quick checks,
# undo; every check must exit 0.  Writes seeded/BENIGN.md.  Sensitivity tooling, never registered.
cd /verif || exit 2
out=seeded/BENIGN.tmp; : > $out
for d in "$@"; do
  d=$(realpath $d)
  id=$(basename $d)
  cd /repo; git diff --quiet || { echo "/repo dirty"; exit 2; }
  git apply $d/patch.diff || { echo "| $id | patch does not apply | |" >> /verif/$out; continue; }
  cd /verif
  bad=""
  for p in C01 C02 C03 C04 C05 C06 C07 C08 C09 C10 C11 C12 C13 C14 C15 C16 C17 C18 C19; do
    o=$(./check $p quick 2>&1); rc=$?
    if [ $rc -ne 0 ]; then
      first=$(echo "$o" | grep -A1 -E "^VIOLATION|INCONCLUSIVE" | grep -E "sub-check|INCONCLUSIVE" | head -1 | cut -c1-300 | iconv -f utf-8 -t utf-8 -c | sed 's/|/\\|/g')
      bad="$bad $p(exit $rc: $first)"
    fi
  done
  git -C /repo checkout -- . ; git -C /repo clean -fdq -- src py tests
  [ -z "$bad" ] && bad=" all 19 checks exit 0"
  sum=$(python3 -c "import json,sys; print(json.load(open('$d/meta.json')).get('summary','')[:200].replace('|','/').replace('\n',' '))" 2>/dev/null)
  echo "| $id |$bad | $sum |" >> $out
  echo "$id:$bad"
done
{ echo "| behaviour-preserving change | quick checks | what it does |"; echo "|---|---|---|"; cat $out; } > seeded/BENIGN.md; rm -f $out
