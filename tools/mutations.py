#!/usr/bin/env python3
"""Appendix B sensitivity mutations: apply one at a time to /repo's working tree, record whether the repository's
own suite still passes (is it a 'realistic change the tests miss'?), run the named quick checks, undo.
Writes seeded/MUTATIONS.md.  Never registered in MANIFEST; never commits anything in /repo.

    tools/mutations.py [M01 M05 ...]      (default: all)      NOSUITE=1 skips the repository suite
"""
import os
import re
import subprocess
import sys

REPO = "/repo"
M = []


def mut(mid, file, edits, checks, note=""):
    M.append((mid, file, edits, checks, note))


# ---- C01
mut("M01", "src/op/data.rs", [("idx.unsigned_abs().try_into().ok()?", "idx.abs().try_into().ok()?")], ["C01"], "abs() on the var index")
mut("M02", "src/op/string.rs", [("""        string
            .chars()
            .skip(start_idx)
            .take(count_in_substr)
            .collect(),""", """        string[start_idx.min(string.len())..(start_idx + count_in_substr).min(string.len())].to_string(),""")], ["C01", "C16"], "byte slicing in substr")
mut("M03", "src/op/string.rs", [("start_idx.checked_add(limit_abs).unwrap_or(string_len)", "start_idx + limit_abs")], ["C01"], "unchecked add in substr")
mut("M04", "src/value.rs", [("""        Number::from_f64(number)
            .ok_or_else(|| {
                Error::UnexpectedError(format!(
                    "Could not make JSON number from result {:?}",
                    number
                ))
            })
            .map(Value::Number)""", """        Ok(Value::Number(Number::from_f64(number).unwrap()))""")], ["C01", "C10"], "unwrap on from_f64")
mut("M05", "src/op/mod.rs", [("""        operator: |items| Ok(Value::Bool(js_op::abstract_eq(items[0], items[1]))),
        num_params: NumParams::Exactly(2)},""", """        operator: |items| Ok(Value::Bool(js_op::abstract_eq(items[0], items[1]))),
        num_params: NumParams::AtLeast(1)},""")], ["C01", "C03"], "== accepts one operand -> index panic")
# ---- C02
mut("M06", "src/op/mod.rs", [("if obj.len() != 1 {", "if obj.len() < 1 {")], ["C02"], "multi-key objects parsed by first key")
mut("M07", "src/op/mod.rs", [("let op = match map.get(key.as_str()) {", "let op = match map.get(key.trim()) {")], ["C02"], "key trimmed")
mut("M07b", "src/op/mod.rs", [("let op = match map.get(key.as_str()) {", "let op = match map.get(key.to_lowercase().as_str()) {")], ["C02"], "key lower-cased")
mut("M08", "src/value.rs", [("""    fn evaluate(&self, _data: &Value) -> Result<Evaluated, Error> {
        Ok(Evaluated::Raw(self.value))
    }""", """    fn evaluate(&self, _data: &Value) -> Result<Evaluated, Error> {
        if let Value::Array(items) = self.value {
            let mut out = Vec::new();
            for i in items {
                out.push(Value::from(Parsed::from_value(i)?.evaluate(_data)?));
            }
            return Ok(Evaluated::New(Value::Array(out)));
        }
        Ok(Evaluated::Raw(self.value))
    }""")], ["C02", "C04"], "literal arrays evaluate their elements (as json-logic-js does)")
# ---- C03
mut("M09a", "src/op/mod.rs", [("""        operator: numeric::lt,
        num_params: NumParams::Variadic(2..4),""", """        operator: numeric::lt,
        num_params: NumParams::Variadic(2..5),""")], ["C03"], "< accepts 4 operands")
mut("M09b", "src/op/mod.rs", [("num_params: NumParams::Variadic(0..3)", "num_params: NumParams::Variadic(0..4)")], ["C03"], "var accepts 3 operands")
mut("M09c", "src/op/mod.rs", [("""        operator: |items| Ok(Value::Bool(logic::truthy(items[0]))),
        num_params: NumParams::Unary,""", """        operator: |items| Ok(Value::Bool(logic::truthy(items[0]))),
        num_params: NumParams::AtLeast(1),""")], ["C03"], "!! ignores surplus operands")
mut("M10", "src/op/mod.rs", [("Self::Exactly(num) => num == &1,", "Self::Exactly(_num) => true,")], ["C03"], "bare operand accepted by binary operators (then rejected by count) - behaviour-preserving?")
# ---- C04
mut("M11", "src/op/data.rs", [("        args[1].clone()", "        crate::value::Parsed::from_value(args[1])?.evaluate(&data)?.into()")], ["C04"], "default re-evaluated")
mut("M12", "src/op/array.rs", [("""        .map(|v| parsed_expression.evaluate(v).map(Value::from))
        .collect::<Result<Vec<Value>, Error>>()
        .map(Value::Array)""", """        .map(|v| {
            let once = Value::from(parsed_expression.evaluate(v)?);
            Parsed::from_value(&once)?.evaluate(v).map(Value::from)
        })
        .collect::<Result<Vec<Value>, Error>>()
        .map(Value::Array)""")], ["C04"], "map evaluates each produced value again")
mut("M13", "src/op/array.rs", [("let items_are_expressions = !matches!(first_arg, Value::Object(_));", "let items_are_expressions = true;")], ["C04"], "all/some parse computed elements")
# ---- C05
mut("M14", "src/op/logic.rs", [("        AndResult::Falsey(v) => Ok(v),", "        AndResult::Falsey(_v) => Ok(Value::Bool(false)),")], ["C05"], "and returns false instead of the falsy value")
mut("M15", "src/op/logic.rs", [("""            else {
                // If there was a previous evaluation and it was truthy,
                // return, and indicate we're a final value.
                if was_truthy {
                    let parsed = Parsed::from_value(val)?;
                    let t_eval = parsed.evaluate(data)?;""", """            else {
                let parsed = Parsed::from_value(val)?;
                let t_eval = parsed.evaluate(data)?;
                // If there was a previous evaluation and it was truthy,
                // return, and indicate we're a final value.
                if was_truthy {""")], ["C05", "C17"], "true-branch evaluated before testing the condition")
mut("M16", "src/op/logic.rs", [("""                    // where there is an incorrect number of arguments.
                    Ok((NULL, was_truthy, should_return))""", """                    // where there is an incorrect number of arguments.
                    Ok((last_eval, was_truthy, should_return))""")], ["C05"], "else-less chain returns the last condition value")
mut("M17", "src/op/mod.rs", [("""        symbol: "?:",
        operator: logic::if_,""", """        symbol: "?:",
        operator: logic::or,""")], ["C05", "C02"], "?: bound to or")
# ---- C06
mut("M18", "src/op/logic.rs", [("""        Value::Array(v) => {
            if v.len() == 0 {
                false
            } else {
                true
            }
        }""", """        Value::Array(_v) => true,""")], ["C06"], "[] truthy (JavaScript)")
mut("M19", "src/op/logic.rs", [("""            if v == "" {
                false""", """            if v == "" || v == "0" {
                false""")], ["C06"], "\"0\" falsy (PHP)")
mut("M20", "src/op/array.rs", [("""            match logic::truthy_from_evaluated(&predicate) {
                true => {""", """            match Value::from(predicate) == Value::Bool(true) {
                true => {""")], ["C06", "C13"], "filter keeps only on literal true")
# ---- C07
mut("M21", "src/js_op.rs", [("        (Value::Null, Value::Null) => true,\n        //   c. If Type(x) is Number, then", "        (Value::Null, Value::Null) => true,\n        (Value::Null, Value::Bool(false)) => true,\n        //   c. If Type(x) is Number, then")], ["C07"], "null == false")
mut("M22", "src/js_op.rs", [("        _ => false,\n    }\n}\n\n/// Perform JS-style strict equality", "        (Value::Array(_), Value::Array(_)) => to_string(first) == to_string(second),\n        _ => false,\n    }\n}\n\n/// Perform JS-style strict equality")], ["C07"], "arrays equal when their string forms are")
mut("M23a", "src/js_op.rs", [("let s = string.as_ref().trim_matches(is_js_whitespace);", "let s = string.as_ref();")], ["C07", "C09", "C10"], "no whitespace trimming")
mut("M23b", "src/js_op.rs", [("""    let magnitude = if unsigned == "Infinity" {
        f64::INFINITY
    } else if unsigned != "" && decimal_literal_len(unsigned) == unsigned.len() {""", """    let magnitude = if unsigned == "Infinity" || unsigned == "inf" {
        f64::INFINITY
    } else if unsigned != "" && decimal_literal_len(unsigned) == unsigned.len() {""")], ["C07", "C09", "C10"], "inf accepted")
mut("M23c", "src/js_op.rs", [('            "0x" | "0X" => Some(16),', '            "0X" => Some(16),')], ["C07", "C09", "C10"], "lower-case hex prefix dropped")
# ---- C08
mut("M24", "src/js_op.rs", [("""        (Value::Number(x), Value::Number(y)) => x
            .as_f64()
            .and_then(|x_val| y.as_f64().map(|y_val| x_val == y_val))
            .unwrap_or(false),
        (Value::String(x), Value::String(y)) => x == y,
        _ => false,""", """        (Value::Number(x), Value::Number(y)) => x == y,
        (Value::String(x), Value::String(y)) => x == y,
        _ => false,""")], ["C08"], "serde Number equality (1 !== 1.0)")
mut("M25", "src/js_op.rs", [("""        (Value::String(x), Value::String(y)) => x == y,
        _ => false,
    }
}

/// Perform JS-style strict in-equality""", """        (Value::String(x), Value::String(y)) => x == y,
        (Value::Array(x), Value::Array(y)) => x == y,
        _ => false,
    }
}

/// Perform JS-style strict in-equality""")], ["C08"], "arrays compared structurally")
# ---- C09
mut("M26", "src/js_op.rs", [("""pub fn abstract_gte(first: &Value, second: &Value) -> bool {
    abstract_lte(second, first)
}""", """pub fn abstract_gte(first: &Value, second: &Value) -> bool {
    abstract_gt(first, second) || abstract_eq(first, second)
}""")], ["C09"], ">= back to (> or ==)")
mut("M27", "src/js_op.rs", [("        (Primitive::String(f), Primitive::String(s)) => f > s,", "        (Primitive::String(f), Primitive::String(s)) => f < s,")], ["C09"], "> on two strings inverted")
mut("M28", "src/op/numeric.rs", [("            func(items[0], items[1]) && func(items[1], items[2]),", "            func(items[0], items[1]),")], ["C09"], "third operand ignored")
mut("M29", "src/js_op.rs", [("        (Primitive::String(f), Primitive::String(s)) => f < s,\n        (Primitive::Number(f), Primitive::Number(s)) => f < s,", "        (Primitive::String(f), Primitive::String(s)) => match (str_to_number(&f), str_to_number(&s)) {\n            (Some(a), Some(b)) => a < b,\n            _ => f < s,\n        },\n        (Primitive::Number(f), Primitive::Number(s)) => f < s,")], ["C09"], "two numeric strings compared numerically")
# ---- C10
mut("M30", "src/value.rs", [("""    if number.fract() == 0.0
        && number >= -9223372036854775808.0
        && number < 9223372036854775808.0
    {""", """    if number.fract() == 0.0 {""")], ["C10"], "back to saturating as i64")
mut("M31", "src/js_op.rs", [("    Ok(first_num.unwrap() % second_num.unwrap())", "    Ok(first_num.unwrap().rem_euclid(second_num.unwrap()))")], ["C10"], "% as rem_euclid")
mut("M32", "src/js_op.rs", [("""        .fold(Ok(1.0), |acc, cur| {""", """        .fold(Ok(0.0), |acc, cur| {""")], ["C10"], "* folds from 0")
mut("M33", "src/js_op.rs", [("""pub fn abstract_minus(first: &Value, second: &Value) -> Result<f64, Error> {
    let first_num = to_number(first);
    let second_num = to_number(second);""", """pub fn abstract_minus(first: &Value, second: &Value) -> Result<f64, Error> {
    let first_num = parse_float(first);
    let second_num = parse_float(second);""")], ["C10"], "- uses parseFloat")
# ---- C11
mut("M34", "src/op/data.rs", [("        vec_len.checked_sub(usize_idx)?\n", "        vec_len.checked_sub(usize_idx)?.checked_sub(1)?\n")], ["C11"], "negative index off by one")
mut("M35", "src/op/data.rs", [("""            Value::String(s) => {
                let s_vec: Vec<char> = s.chars().collect();
                get(&s_vec, i).map(|c| c.to_string()).map(Value::String)
            }""", """            Value::String(s) => {
                let s_vec: Vec<u8> = s.bytes().collect();
                get(&s_vec, i).map(|c| (*c as char).to_string()).map(Value::String)
            }""")], ["C11"], "integer key indexes strings by byte")
mut("M36", "src/op/data.rs", [("    let val = get_key(data, key);\n\n    Ok(val.unwrap_or(if arg_count < 2 {", "    let val = get_key(data, key).filter(|v| !v.is_null() || arg_count < 2);\n\n    Ok(val.unwrap_or(if arg_count < 2 {")], ["C11"], "default beats a present null")
mut("M37", "src/op/data.rs", [("        } else if c == '\\\\' {\n            escape = true;", "        } else if c == '\\\\' && false {\n            escape = true;")], ["C11"], "escape ignored")
# ---- C12
mut("M38", "src/op/data.rs", [("""                let val = get_key(data, key);
                if val.is_none() {""", """                let val = get_key(data, key);
                if val.as_ref().map(|v| v.is_null() || v == "").unwrap_or(true) {""")], ["C12"], "null / empty values count as missing")
mut("M39a", "src/op/data.rs", [("    let met_threshold = present_count >= threshold;", "    let met_threshold = present_count > threshold;")], ["C12"], "threshold must be exceeded")
mut("M39b", "src/op/data.rs", [("""                if get_key(data, parsed_key).is_none() {
                    if !missing_keys.contains(key) {
                        missing_keys.push((*key).clone());
                    }
                    prev_present_count""", """                if get_key(data, parsed_key).is_none() && !missing_keys.contains(key) {
                    missing_keys.push((*key).clone());
                    prev_present_count""")], ["C12"], "duplicate absent key counted present (D9 re-introduced)")
# ---- C13
mut("M40", "src/op/array.rs", [("""    values
        .into_iter()
        .fold(Ok(Value::from(evaluated_initializer)), |acc, cur| {""", """    values
        .into_iter()
        .rev()
        .fold(Ok(Value::from(evaluated_initializer)), |acc, cur| {""")], ["C13"], "right fold")
mut("M41", "src/op/array.rs", [(".fold(Ok(Value::from(evaluated_initializer)), |acc, cur| {", ".fold(Ok({ let _ = &evaluated_initializer; initializer.clone() }), |acc, cur| {")], ["C13"], "initial value used unevaluated")
mut("M42", "src/op/array.rs", [("""        .map(|v| parsed_expression.evaluate(v).map(Value::from))
        .collect::<Result<Vec<Value>, Error>>()
        .map(Value::Array)""", """        .map(|v| {
            let scope = match (data, *v) {
                (Value::Object(o), Value::Object(e)) => {
                    let mut m = o.clone();
                    for (k, x) in e {
                        m.insert(k.clone(), x.clone());
                    }
                    Value::Object(m)
                }
                _ => (*v).clone(),
            };
            parsed_expression.evaluate(&scope).map(Value::from)
        })
        .collect::<Result<Vec<Value>, Error>>()
        .map(Value::Array)""")], ["C13"], "outer data merged into the element scope")
# ---- C14
mut("M43", "src/op/array.rs", [("""    // Special-case the empty array, since it for some reason is specified
    // to return false.
    if items.len() == 0 {
        return Ok(Value::Bool(false));
    }

    // Note we _expect_ the predicate to be an operator, but it doesn't
    // necessarily have to be. all([1, 2, 3], 1) is a valid operation,
    // returning 1 for each of the items and thus evaluating to true.
    let predicate = Parsed::from_value(second_arg)?;

    let result = items.into_iter().fold(Ok(true), |acc, i| {""", """    // Special-case the empty array, since it for some reason is specified
    // to return false.
    if items.len() == 0 {
        return Ok(Value::Bool(true));
    }

    // Note we _expect_ the predicate to be an operator, but it doesn't
    // necessarily have to be. all([1, 2, 3], 1) is a valid operation,
    // returning 1 for each of the items and thus evaluating to true.
    let predicate = Parsed::from_value(second_arg)?;

    let result = items.into_iter().fold(Ok(true), |acc, i| {""")], ["C14"], "all over an empty collection is true")
mut("M44", "src/op/array.rs", [("""    some(data, args).and_then(|had_some| match had_some {
        Value::Bool(res) => Ok(Value::Bool(!res)),""", """    all(data, args).and_then(|had_all| match had_all {
        Value::Bool(res) => Ok(Value::Bool(!res)),""")], ["C14"], "none derived from all")
mut("M45", "src/op/array.rs", [("""            // "Short-circuit": return false if the previous eval was false
            if res {
                return Ok(true);
            };""", """            let _ = res;""")], ["C14"], "some has no early exit (and forgets earlier hits)")
# ---- C15
mut("M46", "src/op/array.rs", [("""                Value::Array(i_vals) => {
                    i_vals.into_iter().for_each(|val| acc.push((*val).clone()));
                }""", """                Value::Array(i_vals) => {
                    i_vals.into_iter().for_each(|val| match val {
                        Value::Array(inner) => inner.iter().for_each(|x| acc.push(x.clone())),
                        other => acc.push(other.clone()),
                    });
                }""")], ["C15"], "merge flattens two levels")
mut("M47a", "src/op/array.rs", [("            possibles.iter().any(|item| deep_eq(item, needle)),", "            possibles.contains(needle),")], ["C15"], "back to Vec::contains")
mut("M47b", "src/op/array.rs", [("            possibles.iter().any(|item| deep_eq(item, needle)),", "            possibles.iter().any(|item| crate::js_op::to_string(item) == crate::js_op::to_string(needle)),")], ["C15"], "membership by string form")
# ---- C16
mut("M48", "src/op/string.rs", [("let string_len = string.chars().count();", "let string_len = string.len();")], ["C16"], "byte length for the clamp (D11 re-introduced)")
mut("M49", "src/op/string.rs", [("                l if l < 0 => string_len.checked_sub(limit_abs).unwrap_or(0),", "                l if l < 0 => cmp::min(string_len, start_idx.checked_add(limit_abs).unwrap_or(string_len)),")], ["C16"], "negative length treated as a count")
mut("M50", "src/js_op.rs", [("""            .map(|i| match i {
                Value::Null => String::from(""),
                _ => to_string(i),
            })""", """            .map(|i| to_string(i))""")], ["C16", "C07"], "nested null spelled null")
# ---- C17
mut("M51", "src/lib.rs", [("""pub fn apply(value: &Value, data: &Value) -> Result<Value, Error> {
    let parsed = Parsed::from_value(&value)?;
    parsed.evaluate(data).map(Value::from)
}""", """pub fn apply(value: &Value, data: &Value) -> Result<Value, Error> {
    use std::cell::RefCell;
    use std::collections::HashMap;
    thread_local! { static CACHE: RefCell<HashMap<String, Value>> = RefCell::new(HashMap::new()); }
    let key = value.to_string();
    if key.len() > 24 && !key.contains("log") {
        if let Some(hit) = CACHE.with(|c| c.borrow().get(&key).cloned()) {
            return Ok(hit);
        }
    }
    let parsed = Parsed::from_value(&value)?;
    let out = parsed.evaluate(data).map(Value::from)?;
    CACHE.with(|c| c.borrow_mut().insert(key, out.clone()));
    Ok(out)
}""")], ["C17"], "thread-local result cache keyed on the rule only")
mut("M52a", "src/op/impure.rs", [('    println!("{}", items[0]);', '    print!("{}", items[0]);\n    print!("\\n");')], ["C17"], "log writes in two pieces (only visible under concurrency)")
mut("M52b", "src/op/impure.rs", [('    println!("{}", items[0]);', '    eprintln!("{}", items[0]);')], ["C17", "C18", "C05"], "log to stderr")
mut("M52c", "src/op/impure.rs", [('    println!("{}", items[0]);', '    println!("{}", items[0]);\n    println!("{}", items[0]);')], ["C17", "C05"], "log twice")
mut("M52d", "src/op/impure.rs", [("    Ok(items[0].clone())", "    Ok(Value::Null)")], ["C17"], "log returns null")
# ---- C18
mut("M53", "src/bin.rs", [("""    let result = jsonlogic_rs::apply(&json_logic, &json_data)
        .context("Could not execute logic")?;""", """    let result = jsonlogic_rs::apply(&json_logic, &json_data).unwrap_or(Value::Null);""")], ["C18"], "errors printed as null with exit 0")
mut("M54", "src/bin.rs", [('    if data_arg != "-" {', '    if data_arg == "-" {')], ["C18"], "dash test inverted")
mut("M55", "src/bin.rs", [('    println!("{}", result.to_string());', '    println!("{:#}", result);')], ["C18"], "pretty-printed result")
# ---- C19
mut("M56a", "py/jsonlogic_rs/__init__.py", [("    deserializer = deserializer if deserializer is not None else _json.loads\n    res = _apply(value, data", "    res = _apply(value, data")], ["C19"], "default deserializer removed again")
mut("M56b", "py/jsonlogic_rs/__init__.py", [("    res = _apply(serializer(value), serializer(data))", "    res = _apply(serializer(value), serializer(data if data is not None else {}))")], ["C19"], "omitted data means {}")
mut("M57", "src/lib.rs", [("use cpython::exc::ValueError;", "use cpython::exc::RuntimeError as ValueError;")], ["C19", "C01"], "errors raised as RuntimeError")


def sh(cmd, cwd=None, timeout=3600):
    return subprocess.run(cmd, shell=True, cwd=cwd, stdout=subprocess.PIPE, stderr=subprocess.STDOUT, text=True, timeout=timeout)


def main():
    want = set(sys.argv[1:])
    rows = []
    if sh("git diff --quiet", REPO).returncode != 0:
        print("/repo has uncommitted changes; refusing")
        sys.exit(2)
    for mid, file, edits, checks, note in M:
        if want and mid not in want:
            continue
        path = os.path.join(REPO, file)
        src = open(path).read()
        new = src
        ok = True
        for old, repl in edits:
            if new.count(old) < 1:
                ok = False
                break
            new = new.replace(old, repl, 1)
        if not ok:
            rows.append((mid, file, note, "edit site not found", "", ""))
            print(mid, "EDIT SITE NOT FOUND")
            continue
        open(path, "w").write(new)
        try:
            feat = " --features cmdline" if file.endswith("bin.rs") else ""
            b = sh("CARGO_NET_OFFLINE=true cargo build --offline" + feat, REPO)
            if b.returncode != 0:
                rows.append((mid, file, note, "does not compile", "", b.stdout[-300:].replace("\n", " ")))
                print(mid, "DOES NOT COMPILE", b.stdout[-400:])
                continue
            suite = "not run"
            if not os.environ.get("NOSUITE"):
                t = sh("CARGO_NET_OFFLINE=true cargo test --workspace --no-fail-fast --offline 2>&1 | grep -E '^test result'", REPO)
                failed = sum(int(x) for x in re.findall(r"(\d+) failed", t.stdout))
                passed = sum(int(x) for x in re.findall(r"(\d+) passed", t.stdout))
                suite = "passes (%d)" % passed if failed == 0 and passed >= 78 else "FAILS (%d failed)" % failed
            caught = []
            first = ""
            for c in checks:
                r = sh("./check %s quick" % c, "/verif")
                if r.returncode == 1:
                    subs = sorted(set(re.findall(r"sub-check ([a-z_0-9]+):", r.stdout)))
                    caught.append("%s[%s]" % (c, ",".join(subs)))
                    if not first:
                        m = re.search(r"sub-check [^\n]{0,220}", r.stdout)
                        first = m.group(0) if m else ""
                else:
                    caught.append("%s: exit %d" % (c, r.returncode))
            rows.append((mid, file, note, suite, "; ".join(caught), first))
            print(mid, suite, "|", "; ".join(caught))
        finally:
            sh("git checkout -- . && git clean -fdq -- src py tests", REPO)
    out = ["| # | file | change | repository suite | quick checks (1 = violation reported) | first report |", "|---|---|---|---|---|---|"]
    for r in rows:
        out.append("| " + " | ".join(x.replace("|", "\\|").replace("\n", " ") for x in r) + " |")
    mode = "a" if want else "w"
    with open("/verif/seeded/MUTATIONS.md", mode) as f:
        f.write("\n".join(out) + "\n")


if __name__ == "__main__":
    main()
