#!/bin/bash
# tools/seed_matrix.sh [ids...]  - apply each confirmed seeded change to /repo, run the quick check of its property
# (and, with ALL=1, of every property), record what fires, undo the change.  Writes seeded/MATRIX.md.
cd /verif || exit 2
ids="$@"; [ -z "$ids" ] && ids=$(ls seeded | grep -E '^C[0-9]+-[ab]$')
out=seeded/MATRIX.tmp; : > $out
for id in $ids; do
  prop=${id%-*}
  cd /repo; git diff --quiet || { echo "/repo dirty"; exit 2; }
  git apply /verif/seeded/$id/patch.diff || { echo "| $id | patch does not apply | | |" >> /verif/$out; continue; }
  cd /verif
  props="$prop"; [ -n "$ALL" ] && props="C01 C02 C03 C04 C05 C06 C07 C08 C09 C10 C11 C12 C13 C14 C15 C16 C17 C18 C19"
  caught=""; first=""
  for p in $props; do
    o=$(./check $p quick 2>&1); rc=$?
    if [ $rc -eq 1 ]; then
      subs=$(echo "$o" | grep -A1 "^VIOLATION" | grep "sub-check" | sed -E 's/.*sub-check ([a-z_0-9]+):.*/\1/' | sort -u | paste -sd, )
      caught="$caught $p[$subs]"
      [ -z "$first" ] && first=$(echo "$o" | grep -A1 "^VIOLATION" | grep "sub-check" | head -1 | cut -c1-260 | iconv -f utf-8 -t utf-8 -c | sed 's/|/\\|/g')
    elif [ $rc -ne 0 ]; then caught="$caught $p[exit $rc]"; fi
  done
  git -C /repo checkout -- . ; git -C /repo clean -fdq -- src py tests
  [ -z "$caught" ] && caught=" MISSED"
  echo "| $id |$caught | $first |" >> $out
  echo "$id:$caught"
done
if [ -n "${APPEND:-}" ]; then
  # APPEND=1: replace the rows of the given ids in the existing table (or add them), keep the rest
  for id in $ids; do sed -i "/^| $id |/d" seeded/MATRIX.md; done
  cat $out >> seeded/MATRIX.md; rm -f $out
else
  { echo "| seeded change | quick checks that report a violation [sub-checks] | first report |"; echo "|---|---|---|"; cat $out; } > seeded/MATRIX.md; rm -f $out
fi
