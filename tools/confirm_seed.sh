#!/bin/bash
# tools/confirm_seed.sh <candidate-dir> <slot>
# Confirms a seeded change independently in a scratch worktree (never in /repo's working tree):
#   patch applies, crate builds, the repository's whole test suite passes with it, the demonstration FAILS with it
#   and PASSES without it.  On success copies patch.diff, the demo and a meta.json (with what was run) to /verif/seeded/<id>/.
cand="$(realpath "$1")"; slot="${2:-0}"
id="$(basename "$cand")"
wt="/tmp/sw/wt$slot"; export CARGO_TARGET_DIR="/tmp/sw/target$slot"; export CARGO_NET_OFFLINE=true RUST_BACKTRACE=0
log="/tmp/sw/$id.log"; : > "$log"
mkdir -p /tmp/sw
if [ ! -d "$wt" ]; then git -C /repo worktree add -q --detach "$wt" HEAD >>"$log" 2>&1 || { echo "$id: cannot create worktree"; exit 2; }; cp /repo/Cargo.lock "$wt/"; fi
cd "$wt" || exit 2
git checkout -q -- . ; git clean -fdq -- src py tests
fail() { echo "$id: REJECTED - $1"; git checkout -q -- . ; git clean -fdq -- src py tests; exit 1; }
run_demo() { # prints nothing; returns demo's exit code
  if [ -f "$cand/demo.rs" ]; then
    cp "$cand/demo.rs" tests/seed_demo.rs
    cargo test --offline --test seed_demo >"$log.demo" 2>&1; rc=$?; cat "$log.demo" >>"$log"; rm -f tests/seed_demo.rs
    if grep -q "could not compile" "$log.demo"; then rm -f "$log.demo"; return 99; fi
    rm -f "$log.demo"; return $rc
  elif [ -f "$cand/demo.sh" ]; then
    cargo build --offline --features cmdline --bin jsonlogic >>"$log" 2>&1 || return 99
    bash "$cand/demo.sh" "$CARGO_TARGET_DIR/debug/jsonlogic" >>"$log" 2>&1; return $?
  elif [ -f "$cand/demo.py" ]; then
    PYTHON_SYS_EXECUTABLE=/usr/bin/python3 cargo build --offline --features python --lib >>"$log" 2>&1 || return 99
    pkg="/tmp/sw/pypkg$slot"; rm -rf "$pkg"; mkdir -p "$pkg/jsonlogic_rs"
    cp py/jsonlogic_rs/__init__.py "$pkg/jsonlogic_rs/"; cp "$CARGO_TARGET_DIR/debug/libjsonlogic_rs.so" "$pkg/jsonlogic_rs/jsonlogic.so"
    PYTHONPATH="$pkg" python3 "$cand/demo.py" >>"$log" 2>&1; return $?
  fi
  return 98
}
git apply --check "$cand/patch.diff" >>"$log" 2>&1 || fail "patch does not apply to HEAD"
# 1. clean tree: demo must pass
run_demo; clean_rc=$?
[ $clean_rc -eq 0 ] || fail "demonstration does not pass on the clean tree (rc=$clean_rc)"
# 2. with the change: builds, whole suite passes, demo fails
git apply "$cand/patch.diff" || fail "patch does not apply"
cargo build --offline >>"$log" 2>&1 || fail "does not build"
suite=$(cargo test --workspace --no-fail-fast --offline 2>&1 | tee -a "$log" | grep -E "^test result" )
passed=$(echo "$suite" | sed -E 's/.* ([0-9]+) passed.*/\1/' | paste -sd+ | bc)
failed=$(echo "$suite" | sed -E 's/.* ([0-9]+) failed.*/\1/' | paste -sd+ | bc)
[ "$failed" = "0" ] && [ "$passed" -ge 78 ] || fail "existing test suite does not pass with the change (passed=$passed failed=$failed)"
run_demo; mut_rc=$?
[ $mut_rc -ne 0 ] && [ $mut_rc -ne 98 ] && [ $mut_rc -ne 99 ] || fail "demonstration does not fail with the change (rc=$mut_rc)"
git checkout -q -- . ; git clean -fdq -- src py tests
dest="/verif/seeded/$id"; mkdir -p "$dest"
cp "$cand/patch.diff" "$dest/"; for f in demo.rs demo.sh demo.py; do [ -f "$cand/$f" ] && cp "$cand/$f" "$dest/"; done
python3 - "$cand/meta.json" "$dest/meta.json" "$id" "$passed" "$clean_rc" "$mut_rc" <<'PY'
import json, sys
src, dst, cid, passed, clean_rc, mut_rc = sys.argv[1:]
try: m = json.load(open(src))
except Exception: m = {}
out = {
 "id": cid, "property": m.get("property", cid.split("-")[0]), "author": "independent sub-agent (given only the property text and a scratch worktree)",
 "summary": m.get("summary", ""), "needs_to_manifest": m.get("needs", ""), "example": m.get("example", ""),
 "confirmed_by": "tools/confirm_seed.sh in a scratch git worktree of /repo HEAD (outside /repo and /verif, removed afterwards)",
 "what_was_run": [
   "git apply --check patch.diff (clean HEAD)",
   "demonstration on the clean tree: exit %s (passes)" % clean_rc,
   "git apply patch.diff; cargo build --offline",
   "cargo test --workspace --no-fail-fast --offline: %s passed, 0 failed (74 tests + 4 doc-tests)" % passed,
   "demonstration with the change: exit %s (fails)" % mut_rc,
 ],
}
json.dump(out, open(dst, "w"), indent=1, ensure_ascii=False)
PY
echo "$id: CONFIRMED (suite passed=$passed, demo clean rc=$clean_rc, with change rc=$mut_rc)"
