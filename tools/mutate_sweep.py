#!/usr/bin/env python3
"""Systematic single-token mutation sweep over the repository's sources (sensitivity tooling, never registered).

    mutate_sweep.py list  [--seed N] [--max-per-file K]  > mutants.jsonl
    mutate_sweep.py run   --mutants mutants.jsonl --lane i/n --repo <scratch worktree> --verif <clone of /verif> --out results.jsonl

`list` enumerates mutation sites (relational / logical / arithmetic operator swaps, constant changes, boolean literals,
dropped negations, swapped iterator and string methods) in the non-test part of src/**/*.rs and py/jsonlogic_rs/__init__.py.
`run` applies each mutant of its lane to the scratch worktree, and records the first stage that rejects it:
  nocompile -> repo_tests (the repository's own suite fails) -> <Cxx> (first quick check that exits 1) -> SURVIVOR.
Survivors are the interesting output: equivalent mutants or gaps of the checks.  Works only on scratch copies - never /repo.
"""
import argparse
import json
import os
import random
import re
import subprocess
import sys
import time

FILES = ["src/js_op.rs", "src/lib.rs", "src/value.rs", "src/func.rs", "src/error.rs", "src/bin.rs", "src/op/mod.rs", "src/op/array.rs", "src/op/data.rs", "src/op/impure.rs", "src/op/logic.rs", "src/op/numeric.rs",
         "src/op/string.rs", "py/jsonlogic_rs/__init__.py"]

ALL = ["C%02d" % i for i in range(1, 20)]
# which checks to try first, by file (then all the others)
FIRST = {
    "src/js_op.rs": ["C07", "C10", "C09", "C08", "C06", "C16", "C15"],
    "src/op/numeric.rs": ["C10", "C09", "C03"],
    "src/op/array.rs": ["C13", "C14", "C15", "C04"],
    "src/op/data.rs": ["C11", "C12", "C04"],
    "src/op/logic.rs": ["C05", "C06", "C07", "C08"],
    "src/op/string.rs": ["C16", "C15"],
    "src/op/impure.rs": ["C17", "C18"],
    "src/op/mod.rs": ["C03", "C02", "C05", "C04"],
    "src/lib.rs": ["C02", "C03", "C19", "C17"],
    "src/value.rs": ["C02", "C04", "C13"],
    "src/func.rs": ["C02", "C03"],
    "src/error.rs": ["C03", "C19"],
    "src/bin.rs": ["C18", "C01"],
    "py/jsonlogic_rs/__init__.py": ["C19", "C01"],
}

SWAPS = [
    (r" <= ", " < ", "rel"), (r" >= ", " > ", "rel"), (r" < ", " <= ", "rel"), (r" > ", " >= ", "rel"), (r" == ", " != ", "rel"), (r" != ", " == ", "rel"),
    (r" < ", " > ", "rel-flip"), (r" > ", " < ", "rel-flip"),
    (r" && ", " || ", "logic"), (r" \|\| ", " && ", "logic"),
    (r" \+ ", " - ", "arith"), (r" - ", " + ", "arith"), (r" \* ", " / ", "arith"), (r" / ", " * ", "arith"), (r" % ", " / ", "arith"),
    (r"\btrue\b", "false", "bool"), (r"\bfalse\b", "true", "bool"),
    (r"(?<![\w.])0(?![\w.])", "1", "const"), (r"(?<![\w.])1(?![\w.])", "0", "const"), (r"(?<![\w.])1(?![\w.])", "2", "const"), (r"(?<![\w.])2(?![\w.])", "3", "const"),
    (r"(?<![\w.])0\.0(?![\w])", "1.0", "const"), (r"(?<![\w.])1\.0(?![\w])", "0.0", "const"),
    (r"(?<=[ (|])!(?=[a-zA-Z_(])", "", "neg"),
    (r"\.min\(", ".max(", "method"), (r"\.max\(", ".min(", "method"), (r"\.all\(", ".any(", "method"), (r"\.any\(", ".all(", "method"),
    (r"\.first\(\)", ".last()", "method"), (r"\.last\(\)", ".first()", "method"), (r"\.skip\(", ".take(", "method"), (r"\.take\(", ".skip(", "method"),
    (r"\.is_empty\(\)", ".is_empty() == false", "method"), (r"\.rev\(\)", "", "method"), (r"\.chars\(\)\.count\(\)", ".len()", "method"),
    (r"\.is_some\(\)", ".is_none()", "method"), (r"\.is_none\(\)", ".is_some()", "method"), (r"\.is_ok\(\)", ".is_err()", "method"),
    (r"\.abs\(\)", "", "method"), (r"\.unsigned_abs\(\)", " as u64", "method"), (r"\.trunc\(\)", ".round()", "method"), (r"\.floor\(\)", ".ceil()", "method"),
    (r"\.is_finite\(\)", ".is_nan() == false", "method"), (r"\.is_nan\(\)", ".is_infinite()", "method"),
    (r"\bSome\(16\)", "Some(8)", "const"), (r"\.unwrap_or\(0\)", ".unwrap_or(1)", "const"),
    (r"\.trim_matches\(", ".trim_start_matches(", "method"), (r"\.starts_with\(", ".ends_with(", "method"), (r"\.contains\(", ".starts_with(", "method"),
    # second phase: operand order, off-by-one iteration, dropped conversions
    (r"\((\w+), (\w+)\)", r"(\2, \1)", "argswap"), (r"\((&\w+), (&\w+)\)", r"(\2, \1)", "argswap"),
    (r"\.iter\(\)", ".iter().skip(1)", "iter"), (r"\.into_iter\(\)", ".into_iter().skip(1)", "iter"), (r"\.chars\(\)", ".chars().skip(1)", "iter"),
    (r"\.enumerate\(\)", ".enumerate().skip(1)", "iter"), (r"\.to_lowercase\(\)", "", "method"), (r"\.trim\(\)", "", "method"), 
    (r"\bas i64\b", "as i32 as i64", "cast"), (r"\bas u64\b", "as u32 as u64", "cast"), (r"\bas usize\b", "as u8 as usize", "cast"), (r"\bas f64\b", "as f32 as f64", "cast"),
    (r"\bi64\b", "i32", "type"), (r"\bf64::INFINITY\b", "f64::MAX", "const"), (r"\bf64::NAN\b", "0.0", "const"),
    # third phase: literals - other integers, floats, characters, bytes, short strings
    (r"(?<![\w.])([3-9]|[1-9][0-9]+)(?![\w.])", lambda m: str(int(m.group(1)) + 1), "int+1"), (r"(?<![\w.])([3-9]|[1-9][0-9]+)(?![\w.])", lambda m: str(int(m.group(1)) - 1), "int-1"),
    (r"(?<![\w.])([0-9]+\.[0-9]+)(?![\w])", lambda m: repr(float(m.group(1)) * 2.0), "float*2"),
    (r"b'(.)'", lambda m: "b'%s'" % chr(ord(m.group(1)) + 1), "byte"), (r"'([^'\\])'", lambda m: "'%s'" % chr(ord(m.group(1)) + 1), "char"), (r"'\\\\'", "'/'", "char"),
    (r"\bis None\b", "is not None", "py"), (r"\bis not None\b", "is None", "py"), (r" or ", " and ", "py"), (r" and ", " or ", "py"), (r"\bnot ", "", "py"),
]


def code_lines(path, text):
    """yield (line_no, line) of lines that are code outside test modules and comments"""
    lines = text.split("\n")
    skip_until_close = False
    pending_test = False
    in_doc_fence = False
    for i, line in enumerate(lines):
        s = line.strip()
        if path.endswith(".py"):
            if s.startswith("#") or s.startswith('"""') or s.startswith("import ") or s.startswith("from "):
                continue
            yield i, line
            continue
        if skip_until_close:
            if line.startswith("}"):
                skip_until_close = False
            continue
        if s.startswith("#[cfg(test)]"):
            pending_test = True
            continue
        if pending_test:
            if s.startswith("mod ") or s.startswith("pub mod ") or s.startswith("fn ") or s.startswith("pub fn "):
                pending_test = False
                if not s.endswith(";"):
                    skip_until_close = not line.rstrip().endswith("}")
                continue
            if s.startswith("#["):
                continue
            pending_test = False
        if s.startswith("//") or s.startswith("#[") or s.startswith("#![") or s.startswith("use ") or s.startswith("pub use ") or s == "":
            continue
        # string-only lines of error messages are not interesting
        yield i, line


def strip_strings(line):
    """mask string literal contents so that operators inside messages are not mutated"""
    out = []
    in_s = False
    esc = False
    for ch in line:
        if in_s:
            if esc:
                esc = False
                out.append("_")
            elif ch == "\\":
                esc = True
                out.append("_")
            elif ch == '"':
                in_s = False
                out.append('"')
            else:
                out.append("_")
        else:
            if ch == '"':
                in_s = True
            out.append(ch)
    return "".join(out)


def list_mutants(repo, seed, max_per_file):
    rng = random.Random(seed)
    out = []
    for f in FILES:
        p = os.path.join(repo, f)
        if not os.path.exists(p):
            continue
        text = open(p).read()
        cands = []
        for i, line in code_lines(f, text):
            code = line.split("//")[0] if not f.endswith(".py") else line.split("#")[0]
            masked = strip_strings(code)
            for pat, rep, kind in SWAPS:
                if (kind == "py") != f.endswith(".py") and kind == "py":
                    continue
                if f.endswith(".py") and kind in ("neg", "method") and kind != "py":
                    continue
                for m in re.finditer(pat, masked):
                    # generics / arrows / lifetimes are not comparisons
                    ctx = masked[max(0, m.start() - 2):m.end() + 2]
                    if kind.startswith("rel") and ("->" in ctx or "=>" in ctx or "<'" in ctx):
                        continue
                    new = code[:m.start()] + (rep(m) if callable(rep) else m.expand(rep)) + code[m.end():] + line[len(code):]
                    if new != line:
                        cands.append({"file": f, "line": i + 1, "col": m.start(), "kind": kind, "old": line.strip(), "new": new.strip(), "new_line": new})
            if not f.endswith(".py") and not any(w in code for w in ("reason", "format!", "operation:", "expect(", "Error::", "println!", "about(", "help(", "author(", "version(")):
                for m in re.finditer(r'"([^"\\]{1,12})"', code):
                    lit = m.group(1)
                    for repl in {lit.swapcase(), lit + "x", lit[:-1]}:
                        if repl != lit:
                            new = code[:m.start()] + '"' + repl + '"' + code[m.end():] + line[len(code):]
                            cands.append({"file": f, "line": i + 1, "col": m.start(), "kind": "string", "old": line.strip(), "new": new.strip(), "new_line": new})
            st = code.strip()
            if not f.endswith(".py") and st.endswith(";") and not st.startswith(("let ", "return", "use ", "pub ", "const ", "static ", "type ", "}")) and "=" not in st.split("(")[0].replace("==", ""):
                cands.append({"file": f, "line": i + 1, "col": 0, "kind": "delete", "old": line.strip(), "new": "// (statement deleted)", "new_line": ""})
        rng.shuffle(cands)
        # stratify: keep at most max_per_file, spread over kinds
        by_kind = {}
        for c in cands:
            by_kind.setdefault(c["kind"], []).append(c)
        picked = []
        while len(picked) < max_per_file and any(by_kind.values()):
            for k in sorted(by_kind):
                if by_kind[k] and len(picked) < max_per_file:
                    picked.append(by_kind[k].pop())
        out.extend(picked)
    for n, c in enumerate(out):
        c["id"] = "S%04d" % n
    return out


def sh(cmd, cwd, env=None, timeout=1800):
    try:
        r = subprocess.run(cmd, cwd=cwd, env=env, stdout=subprocess.PIPE, stderr=subprocess.STDOUT, text=True, errors="replace", timeout=timeout)
        return r.returncode, r.stdout
    except subprocess.TimeoutExpired as e:
        return 124, (e.stdout or "") if isinstance(e.stdout, str) else ""


def run_lane(args):
    lane_i, lane_n = [int(x) for x in args.lane.split("/")]
    muts = [json.loads(l) for l in open(args.mutants) if l.strip()]
    muts = [m for k, m in enumerate(muts) if k % lane_n == lane_i]
    done = set()
    if os.path.exists(args.out):
        for l in open(args.out):
            try:
                done.add(json.loads(l)["id"])
            except Exception:
                pass
    env = dict(os.environ, CARGO_NET_OFFLINE="true", JLV_REPO=args.repo, JLV_ROOT=args.verif, JLV_WORKERS=str(args.workers), RUST_BACKTRACE="0")
    for m in muts:
        if m["id"] in done:
            continue
        path = os.path.join(args.repo, m["file"])
        orig = open(path).read()
        lines = orig.split("\n")
        if lines[m["line"] - 1].strip() != m["old"]:
            rec = dict(id=m["id"], verdict="stale")
            open(args.out, "a").write(json.dumps(rec) + "\n")
            continue
        lines[m["line"] - 1] = m["new_line"]
        t0 = time.time()
        rec = {k: m[k] for k in ("id", "file", "line", "kind", "old", "new")}
        try:
            open(path, "w").write("\n".join(lines))
            verdict, detail = None, ""
            if not m["file"].endswith(".py"):
                rc, out = sh(["cargo", "check", "--offline", "-q", "--features", "cmdline"], args.repo, env, 600)
                if rc != 0:
                    verdict = "nocompile"
            if verdict is None:
                rc, out = sh(["cargo", "test", "--workspace", "--no-fail-fast", "--offline", "-q"], args.repo, env, 1200)
                if rc != 0:
                    verdict = "repo_tests"
            if verdict is None:
                order = FIRST.get(m["file"], []) + [p for p in ALL if p not in FIRST.get(m["file"], [])]
                if args.relevant_only:
                    order = FIRST.get(m["file"], []) + [p for p in ["C01", "C03", "C04", "C17"] if p not in FIRST.get(m["file"], [])]
                tried = []
                for p in order:
                    rc, out = sh([os.path.join(args.verif, "check"), p, "quick"], args.verif, env, 3600)
                    tried.append("%s=%d" % (p, rc))
                    if rc == 1:
                        verdict = p
                        v = [l for l in out.split("\n") if l.startswith("VIOLATION")]
                        nxt = [l for l in out.split("\n") if "sub-check" in l]
                        detail = (v[0] if v else "") + " | " + (nxt[0].strip()[:300] if nxt else "")
                        break
                if verdict is None:
                    verdict = "SURVIVOR-relevant" if args.relevant_only else "SURVIVOR"
                rec["tried"] = " ".join(tried)
            rec["verdict"] = verdict
            rec["detail"] = detail
        finally:
            open(path, "w").write(orig)
            # replays written by a catching check are not wanted in the clone
            subprocess.run(["git", "checkout", "-q", "--", "evidence"], cwd=args.verif)
            subprocess.run(["rm", "-rf", os.path.join(args.verif, "replays")], cwd=args.verif)
        rec["seconds"] = int(time.time() - t0)
        open(args.out, "a").write(json.dumps(rec) + "\n")
        print(rec["id"], rec["file"], rec["line"], rec["verdict"], rec["seconds"], flush=True)


ap = argparse.ArgumentParser()
ap.add_argument("cmd", choices=["list", "run"])
ap.add_argument("--seed", type=int, default=1)
ap.add_argument("--max-per-file", type=int, default=60)
ap.add_argument("--repo", default="/repo")
ap.add_argument("--verif", default="/verif")
ap.add_argument("--mutants")
ap.add_argument("--lane", default="0/1")
ap.add_argument("--out")
ap.add_argument("--workers", type=int, default=4)
ap.add_argument("--kinds", default="", help="comma-separated kinds to keep when listing (default all)")
ap.add_argument("--relevant-only", action="store_true", help="run only the checks named for the file plus C01 C03 C04 C17 (a survivor of those is reported as SURVIVOR-relevant)")
a = ap.parse_args()
if a.cmd == "list":
    kinds = set(k for k in a.kinds.split(",") if k)
    for c in list_mutants(a.repo, a.seed, a.max_per_file):
        if not kinds or c["kind"] in kinds:
            print(json.dumps(c))
else:
    if os.path.realpath(a.repo) == "/repo":
        sys.exit("refusing to mutate /repo itself: give a scratch worktree")
    run_lane(a)
