#!/bin/bash
# MANIFEST.setup_cmd: build the whole framework offline from files on disk (harness in both profiles,
# the CLI and the Python extension of /repo in dev and release).  ~3 min cold.
set -u
cd "$(dirname "$0")" || exit 2
export CARGO_NET_OFFLINE=true
exec ./check --build-all
