#!/usr/bin/env python3
"""Hypothesis harness for the Python module (C19) and the Python leg of totality (C01).

Run by the orchestrator (jlverif run C19|C01 ...) under python3-vt:
    check_py.py --prop C19 --tier quick --seed N --out <result.json> --pkg dev|release
Writes a worker-result JSON in the same format as the Rust workers.  Exit status 0 unless the harness itself breaks.
The oracle is the library linked directly into `oracle_server` (one line per request).
"""
import argparse
import decimal
import json
import os
import subprocess
import sys
import time

import hypothesis
from hypothesis import HealthCheck, given, settings, strategies as st

ap = argparse.ArgumentParser()
ap.add_argument("--prop", required=True)
ap.add_argument("--tier", default="quick")
ap.add_argument("--seed", type=int, default=1)
ap.add_argument("--out", required=True)
ap.add_argument("--pkg", default="dev")
ap.add_argument("--regress-file", default="")
ap.add_argument("--replay-sub", default="")
ap.add_argument("--replay-case-file", default="")
args = ap.parse_args()

PKG = os.environ.get("JLV_PYPKG_RELEASE" if args.pkg == "release" else "JLV_PYPKG_DEV")
SERVER = os.environ.get("JLV_ORACLE_SERVER")
CUR = args.out + ".current"


def fnv(s: str) -> int:
    h = 0xCBF29CE484222325
    for b in s.encode("utf-8", "surrogatepass"):
        h ^= b
        h = (h * 0x100000001B3) & 0xFFFFFFFFFFFFFFFF
    return h


class Stats:
    def __init__(self):
        self.cases = 0
        self.evals = 0
        self.nontrivial = 0
        self.hashes = set()
        self.classes = {}
        self.unspec = {}
        self.samples = []
        self.sample_classes = {}
        self.violations = []
        self.last_failure = None

    def record(self, case_text, label, nontrivial):
        self.cases += 1
        self.classes[label] = self.classes.get(label, 0) + 1
        if nontrivial:
            self.nontrivial += 1
            self.hashes.add(fnv(case_text))
            n = self.sample_classes.get(label, 0)
            if n < 2 and len(self.samples) < 24 and len(case_text) < 600:
                self.sample_classes[label] = n + 1
                self.samples.append({"class": label, "case_text": case_text})

    def to_json(self):
        return {
            "cases": self.cases, "evals": self.evals, "nontrivial": self.nontrivial, "fixed_cases": 0,
            "classes": self.classes, "unspec": self.unspec, "known": {}, "samples": self.samples,
            "violations": self.violations, "hash_file": "", "hashes": sorted(self.hashes),
        }


RESULT = {}


def finish(code=0):
    tmp = args.out + ".tmp"
    with open(tmp, "w") as f:
        json.dump({k: v.to_json() for k, v in RESULT.items()}, f)
    os.replace(tmp, args.out)
    try:
        os.remove(CUR)
    except OSError:
        pass
    sys.exit(code)


def broken(msg):
    s = Stats()
    s.violations.append({"case_text": "null", "msg": "oracle_broken: " + msg, "oracle_broken": True})
    RESULT["py_harness"] = s
    finish(0)


if not PKG or not os.path.isdir(PKG):
    broken("python package directory missing (JLV_PYPKG_DEV / JLV_PYPKG_RELEASE)")
if not SERVER or not os.path.exists(SERVER):
    broken("oracle server binary missing (JLV_ORACLE_SERVER)")
sys.path.insert(0, PKG)
IMPORT_CASE = json.dumps({"import_check": True})


def unusable(msg):
    """The package was assembled from a successful build of the working tree, yet the module cannot be used at all.
    For C19 that is the property failing on every input (nothing is returned for any rule and data); for the Python
    leg of C01 nothing can be explored, which is inconclusive."""
    if args.prop != "C19":
        broken(msg)
    s = Stats()
    s.violations.append({"case_text": IMPORT_CASE, "msg": "[%s] %s" % (args.pkg, msg), "from": "import"})
    RESULT[args.replay_sub or "py_apply"] = s
    finish(0)


for needed in ("__init__.py", "jsonlogic.so"):
    if not os.path.exists(os.path.join(PKG, "jsonlogic_rs", needed)):
        broken("the assembled package lacks %s (build artefact problem)" % needed)
try:
    import jsonlogic_rs  # noqa: E402
except BaseException as e:  # pragma: no cover
    unusable("import jsonlogic_rs fails with %r although the extension and the wrapper were built from the working tree: no call can return the library's value" % (e,))
for name in ("apply", "apply_serialized"):
    if not callable(getattr(jsonlogic_rs, name, None)):
        unusable("the module has no callable %s" % name)

server = subprocess.Popen([SERVER], stdin=subprocess.PIPE, stdout=subprocess.PIPE, text=True, encoding="utf-8", env=dict(os.environ, RUST_BACKTRACE="0"))


def oracle(rule_text: str, data_text: str):
    """the library's answer for these texts: ('ok', text) | ('err', msg) | ('parse_err', msg) | ('panic', msg)"""
    server.stdin.write(json.dumps([rule_text, data_text]) + "\n")
    server.stdin.flush()
    line = server.stdout.readline()
    if not line:
        raise RuntimeError("oracle server died")
    r = json.loads(line)
    for k in ("ok", "err", "parse_err", "panic", "protocol_error"):
        if k in r:
            return k, r[k]
    raise RuntimeError("bad oracle reply " + line)


def mark_current(sub, case_text):
    with open(CUR, "w") as f:
        json.dump({"sub": sub, "case_text": case_text}, f)


# ------------------------------------------------------------------------------------------------ generators

OPS = ["==", "!=", "===", "!==", "!", "!!", "<", "<=", ">", ">=", "+", "-", "*", "/", "%", "max", "min", "merge", "in", "cat", "substr", "log",
       "var", "missing", "missing_some", "if", "?:", "or", "and", "map", "filter", "reduce", "all", "some", "none"]
KEYS = ["a", "b", "c", "", "0", "1", "a.b", "é", "xs", "日本", "current", "accumulator"]

ints = st.one_of(
    st.integers(-10, 10),
    st.sampled_from([2**31, -2**31, 2**53, 2**53 + 1, -2**53 - 1, 2**63 - 1, 2**63, -2**63, -2**63 - 1, 2**64 - 1, 2**64, 2**70, -2**70, 10**22, 10**400]),
    st.integers(-2**65, 2**65),
)
floats_finite = st.one_of(st.sampled_from([0.0, -0.0, 0.5, 1.0, 1.5, 1e21, 1e-7, 5e-324, 1e308, 1.7976931348623157e308, 0.1, 2.0**63, 2.0**64]), st.floats(allow_nan=False, allow_infinity=False))
floats_bad = st.sampled_from([float("nan"), float("inf"), float("-inf")])
texts = st.one_of(
    st.sampled_from(["", "a", "0", "1", " 1 ", "héllo", "日本語", "x😀y", "𝄞", "12px", "0x10", "a.b", "\u0000", "\ud800", "\udc00x", "\ufeff", "line\nbreak", '"quoted"', "\\"]),
    # strings that *spell* JSON documents are still strings
    st.sampled_from(['{"var": "secret"}', '{"var":""}', '[1,2]', '{"a":"leak"}', ' {"x":1}', '[]', '{}', 'null', 'true', '"s"', '{"+":[1,2]}', '[{"var":"a"}]']),
    st.text(max_size=6),
    st.text(alphabet=st.characters(min_codepoint=0x10000, max_codepoint=0x10FFFF), max_size=3),
)
# long texts whose UTF-8 length straddles typical buffer / truncation boundaries, multi-byte characters at every alignment
long_texts = st.tuples(st.sampled_from(["é", "日", "😀", "a", "xé"]), st.sampled_from([100, 170, 171, 255, 256, 257, 341, 400, 511, 512, 513, 1023, 1024, 1025, 2000]), st.integers(0, 3)).map(
    lambda t: "x" * t[2] + t[0] * max(1, t[1] // len(t[0].encode("utf-8"))))
scalars = st.one_of(st.none(), st.booleans(), ints, floats_finite, texts, texts, long_texts)
scalars_with_bad = st.one_of(scalars, floats_bad)


# json.dumps accepts str, int, float, bool and None as dictionary keys and writes them as strings ("1", "1.5", "true", "null"):
# such dictionaries are JSON-encodable arguments like any other, also when the key types are mixed (not mutually orderable)
NON_STR_KEYS = st.one_of(st.integers(-3, 12), st.booleans(), st.none(), st.sampled_from([1.5, 2.0, -0.0, 1e21]))
DICT_KEYS = st.one_of(st.sampled_from(KEYS), st.sampled_from(OPS), st.text(max_size=3), st.sampled_from(KEYS), NON_STR_KEYS)


def json_values(leaf):
    return st.recursive(leaf, lambda inner: st.one_of(st.lists(inner, max_size=4), st.dictionaries(DICT_KEYS, inner, max_size=4)), max_leaves=12)


values = json_values(scalars)
values_with_bad = json_values(scalars_with_bad)


def rules(leaf):
    var = st.one_of(st.sampled_from(KEYS).map(lambda k: {"var": k}), st.sampled_from(KEYS).map(lambda k: {"var": [k, "dflt"]}), st.just({"var": ""}))
    base = st.one_of(leaf, var, st.just({"+": ["x"]}), st.just({"==": [1]}), long_texts.map(lambda t: {"+": [t]}), long_texts.map(lambda t: {"substr": [t, 1, "x"]}), long_texts.map(lambda t: {"var": {t: 1}}))

    def node(inner):
        args = st.lists(inner, max_size=4)
        return st.one_of(
            st.tuples(st.sampled_from(OPS), args).map(lambda t: {t[0]: t[1]}),
            st.tuples(st.sampled_from(["!", "!!", "log", "-", "cat", "var", "+"]), inner).map(lambda t: {t[0]: t[1]}),
            st.tuples(st.sampled_from(["map", "filter", "all", "some", "none"]), st.lists(inner, max_size=4), inner).map(lambda t: {t[0]: [t[1], t[2]]}),
            st.tuples(st.lists(inner, max_size=3), inner, inner).map(lambda t: {"reduce": [t[0], t[1], t[2]]}),
        )

    return st.recursive(base, node, max_leaves=10)


rule_objects = st.one_of(rules(scalars), values)
rule_objects_with_bad = st.one_of(rules(scalars_with_bad), values_with_bad)

MISSING = object()


def compact_sorted(x):
    return json.dumps(x, separators=(",", ":"), sort_keys=True, ensure_ascii=False)


def compact_sorted_or_plain(x):
    """text generator only: dictionaries whose keys are of mixed types cannot be sorted"""
    try:
        return compact_sorted(x)
    except TypeError:
        return json.dumps(x, separators=(",", ":"), ensure_ascii=False)


def loads_decimal(s):
    return json.loads(s, parse_float=decimal.Decimal)


SERIALIZERS = {"omitted": MISSING, "json.dumps": json.dumps, "compact-sorted-utf8": compact_sorted}
DESERIALIZERS = {"omitted": MISSING, "json.loads": json.loads, "parse_float=Decimal": loads_decimal, "identity": (lambda s: s)}


KEY_TAG = "\u00a7k:"


def tag_keys(x):
    """saved cases are JSON: dictionary keys that are not str are written as a tagged repr so that a replay rebuilds them"""
    if isinstance(x, dict):
        return {(k if isinstance(k, str) else KEY_TAG + repr(k)): tag_keys(v) for k, v in x.items()}
    if isinstance(x, (list, tuple)):
        return [tag_keys(v) for v in x]
    return x


def untag_keys(x):
    import ast
    if isinstance(x, dict):
        out = {}
        for k, v in x.items():
            if k.startswith(KEY_TAG):
                try:
                    k = ast.literal_eval(k[len(KEY_TAG):])
                except Exception:
                    pass
            out[k] = untag_keys(v)
        return out
    if isinstance(x, list):
        return [untag_keys(v) for v in x]
    return x


def describe(x):
    try:
        return json.dumps(tag_keys(x), ensure_ascii=True)
    except Exception:
        return repr(x)


def same(a, b):
    """equality that tells 1 from 1.0, True from 1 and -0.0 from 0.0, and treats nan == nan"""
    if type(a) is not type(b):
        return False
    if isinstance(a, float):
        import math
        return (a == b and math.copysign(1.0, a) == math.copysign(1.0, b)) or (a != a and b != b)
    if isinstance(a, list):
        return len(a) == len(b) and all(same(x, y) for x, y in zip(a, b))
    if isinstance(a, dict):
        return a.keys() == b.keys() and all(same(a[k], b[k]) for k in a)
    return a == b


# ------------------------------------------------------------------------------------------------ C19 checks

def expect_from_texts(rule_text, data_text, deserializer):
    """('value', v) or ('ValueError',)"""
    kind, payload = oracle(rule_text, data_text)
    if kind == "ok":
        d = json.loads if deserializer is MISSING else deserializer
        return ("value", d(payload))
    if kind in ("err", "parse_err"):
        return ("ValueError",)
    if kind == "panic":
        # the library itself panics: that is C01's business; whatever Python shows, it must not be a silent value
        return ("panic", payload)
    raise RuntimeError(payload)


def run_call(fn):
    try:
        return ("value", fn())
    except ValueError as e:
        if type(e) is ValueError or isinstance(e, ValueError):
            return ("ValueError", type(e).__name__, str(e)[:200])
    except BaseException as e:  # noqa: BLE001  (SystemError, TypeError, pyo3/cpython panics, ...)
        return ("other", type(e).__name__, str(e)[:300])


def check_apply(stats, rule, data, data_mode, ser_name, de_name):
    ser = SERIALIZERS[ser_name]
    de = DESERIALIZERS[de_name]
    real_ser = json.dumps if ser is MISSING else ser
    # what the wrapper must send: serializer(rule), serializer(data) with an omitted data meaning null
    try:
        rule_text = real_ser(rule)
        data_text = real_ser(None if data_mode == "omitted" else data)
    except Exception as e:
        stats.unspec["serializer raised"] = stats.unspec.get("serializer raised", 0) + 1
        return "serializer raised", False
    kwargs = {}
    if ser is not MISSING:
        kwargs["serializer"] = ser
    if de is not MISSING:
        kwargs["deserializer"] = de
    if data_mode == "omitted":
        call = lambda: jsonlogic_rs.apply(rule, **kwargs)
    elif data_mode == "keyword":
        call = lambda: jsonlogic_rs.apply(rule, data=data, **kwargs)
    else:
        call = lambda: jsonlogic_rs.apply(rule, data, **kwargs)
    try:
        rule_text.encode("utf-8")
        data_text.encode("utf-8")
    except UnicodeEncodeError:
        # a serializer that leaves lone surrogates raw produces text that is not UTF-8 encodable: the glue must
        # refuse it with UnicodeEncodeError (a ValueError)
        want = ("ValueError",)
    else:
        want = expect_from_texts(rule_text, data_text, de)
    # the wrapper only serialises: the caller's objects must be exactly what they were (type-strict: repr tells 2 from 2.0)
    try:
        before = (repr(rule), repr(data))
    except Exception:
        before = None
    got = run_call(call)
    stats.evals += 1
    if before is not None:
        after = (repr(rule), repr(data))
        if after != before:
            raise AssertionError("apply(%s, data %s, serializer %s) modified its arguments in place: before %s, after %s" % (describe(rule), describe(data), ser_name, before[0][:200] + " / " + before[1][:200], after[0][:200] + " / " + after[1][:200]))
    judge("apply(%s, data %s, serializer %s, deserializer %s)" % (describe(rule), ("omitted" if data_mode == "omitted" else describe(data)), ser_name, de_name), want, got)
    nontrivial = data_mode == "omitted" or ser is MISSING or de is MISSING or want[0] != "value" or not rule_text.isascii() or any(c.isdigit() for c in rule_text) and ("e+" in rule_text or len(rule_text) > 40)
    label = "apply: %s" % ("error outcome" if want[0] != "value" else "data omitted" if data_mode == "omitted" else "optional argument omitted" if (ser is MISSING or de is MISSING) else "all arguments given")
    return label, nontrivial


def judge(what, want, got):
    if want[0] == "value":
        if got[0] != "value":
            raise AssertionError("%s should return %r but raised %s" % (what, want[1], got[1:]))
        if not same(want[1], got[1]):
            raise AssertionError("%s returned %r, expected %r (decode of the library's result)" % (what, got[1], want[1]))
    elif want[0] == "ValueError":
        if got[0] == "value":
            raise AssertionError("%s returned %r although the library reports an error / the text is malformed: a ValueError is required" % (what, got[1]))
        if got[0] != "ValueError":
            raise AssertionError("%s must raise ValueError but raised %s" % (what, got[1:]))
    elif want[0] == "panic":
        if got[0] == "value":
            raise AssertionError("%s returned %r although the library panicked (%s)" % (what, got[1], want[1]))
        # C19 cannot decide more here; the panic itself is reported by the C01 leg


MALFORMED = ["", " ", "{", "[1,", "nul", "True", "NaN", "Infinity", "-Infinity", "'a'", "[1,]", "{\"a\":}", "\ufeff1", "1 2", "01", "1.", ".5", "+1", "\"\\ud800\"", "\"unterminated", "[" * 129 + "1" + "]" * 129, "1e999", "-", "tru", "{\"var\":\"a\"}}"]
text_values = st.one_of(
    rule_objects.map(json.dumps),
    rule_objects.map(compact_sorted_or_plain),
    rule_objects.map(lambda x: json.dumps(x, indent=1)),
    st.sampled_from(MALFORMED),
    rule_objects.flatmap(lambda x: st.integers(0, 40).map(lambda k: json.dumps(x)[:k])),
    st.sampled_from(["1", "1.0", "1e0", "-0", "12345678901234567890123", "1E2", "\"\\u0041\"", "[1.5e300, 1e-320]", "{\"b\":1,\"a\":2,\"a\":3}"]),
)


def check_apply_serialized(stats, rule_text, data_text, data_mode, de_name):
    de = DESERIALIZERS[de_name]
    kwargs = {}
    if de is not MISSING:
        kwargs["deserializer"] = de
    if data_mode == "omitted":
        call = lambda: jsonlogic_rs.apply_serialized(rule_text, **kwargs)
        sent_data = "null"
    elif data_mode == "keyword":
        call = lambda: jsonlogic_rs.apply_serialized(rule_text, data=data_text, **kwargs)
        sent_data = data_text
    else:
        call = lambda: jsonlogic_rs.apply_serialized(rule_text, data_text, **kwargs)
        sent_data = data_text
    if "\x00" in rule_text or "\x00" in sent_data:
        pass  # NUL inside a Python str is legal; the glue must cope (ValueError or a value)
    try:
        rule_text.encode("utf-8")
        sent_data.encode("utf-8")
    except UnicodeEncodeError:
        # lone surrogates cannot be passed as UTF-8: the glue raises UnicodeEncodeError, a subclass of ValueError
        want = ("ValueError",)
    else:
        want = expect_from_texts(rule_text, sent_data, de)
    got = run_call(call)
    stats.evals += 1
    judge("apply_serialized(%r, data %s, deserializer %s)" % (rule_text[:200], ("omitted" if data_mode == "omitted" else repr(data_text[:200])), de_name), want, got)
    label = "apply_serialized: %s" % ("error outcome" if want[0] != "value" else "data omitted" if data_mode == "omitted" else "deserializer omitted" if de is MISSING else "all arguments given")
    return label, True


# ------------------------------------------------------------------------------------------------ C01 leg

EXTREME_RULES = [
    {"var": [-2**63]}, {"substr": ["abc", 0, -2**63]}, {"substr": ["héllo", -2**63]}, {"var": [{"*": [-1e104]}]}, {"+": [1.7e308, 1.7e308]}, {"%": [-2**63, -1]},
    {"/": [-2**63, -1]}, {"*": [-2**63, -1]}, {"-": [-2**63]}, {"var": "a.-9223372036854775808"}, {"missing_some": [2**64 - 1, ["a"]]}, {"==": [1]},
    {"substr": ["日本語", 1, -1]}, {"var": 2**63}, {"var": -2**63 - 1}, {"in": [{"var": ""}, [{"var": ""}]]},
]


def _tower(op, levels):
    v = 1
    for _ in range(levels):
        v = {op: [v]} if op not in ("map", "reduce") else ({"map": [[1], v]} if op == "map" else {"reduce": [[1], v, 0]})
    return v


def _deep(levels, obj, leaf):
    v = leaf
    for _ in range(levels):
        v = {"k": v} if obj else [v]
    return v


# documents at the depth limit of the text interface (the interpreter's own recursion limit is raised for json.dumps)
sys.setrecursionlimit(10000)
DEEP_CASES = [(_tower(op, 60), {"a": 1}) for op in ("!", "cat", "if", "map", "reduce", "+", "merge", "log", "var")]
for _obj in (False, True):
    _d = {"needle": _deep(118, _obj, 1), "hay": [_deep(118, _obj, 2), _deep(118, _obj, 1.0)]}
    DEEP_CASES += [({"in": [{"var": "needle"}, {"var": "hay"}]}, _d), ({"==": [{"var": "needle"}, {"var": "hay.1"}]}, _d), ({"cat": [{"var": "hay"}]}, _d), ({"var": ""}, _d)]


def check_total(stats, rule, data, entry):
    what = "%s(%s, %s)" % (entry, describe(rule), describe(data))
    try:
        rule_text = json.dumps(rule)
        data_text = json.dumps(data)
    except Exception:
        return "not serialisable", False
    if entry == "apply":
        got = run_call(lambda: jsonlogic_rs.apply(rule, data))
    else:
        got = run_call(lambda: jsonlogic_rs.apply_serialized(rule_text, data_text, json.loads))
    stats.evals += 1
    if got[0] == "other":
        raise AssertionError("%s raised %s: only an ordinary ValueError may escape (a SystemError is a Rust panic crossing the boundary)" % (what, got[1:]))
    big = any(ch in rule_text + data_text for ch in ("e+", "9223372036854775", "18446744073709551")) or not (rule_text + data_text).isascii() or len(rule_text) > 120
    return ("py %s: %s" % (entry, "value" if got[0] == "value" else "ValueError")), big


# ------------------------------------------------------------------------------------------------ driver

def run_sub(name, strategy, body, examples):
    stats = RESULT.setdefault(name, Stats())

    @hypothesis.seed(args.seed + fnv(name + args.pkg) % 1000003)
    @settings(max_examples=examples, database=None, deadline=None, derandomize=False, suppress_health_check=list(HealthCheck), print_blob=False, report_multiple_bugs=False)
    @given(strategy)
    def test(case):
        case_text = describe(case)
        mark_current(name, case_text)
        try:
            label, nontrivial = body(stats, case)
        except AssertionError as e:
            stats.last_failure = (case_text, str(e))
            raise
        stats.record(case_text, label, nontrivial)

    try:
        test()
    except AssertionError:
        if stats.last_failure:
            stats.violations.append({"case_text": stats.last_failure[0], "msg": "[%s] %s" % (args.pkg, stats.last_failure[1]), "from": "hypothesis, shrunk"})
    except BaseException as e:  # noqa: BLE001
        stats.violations.append({"case_text": "null", "msg": "oracle_broken: python harness error in %s: %r" % (name, e), "oracle_broken": True})


thorough = args.tier == "thorough"
scale = 1.0 if args.pkg == "dev" else 0.5
t0 = time.time()

# ==-equal Python scalars with different JSON spellings: a wrapper that keeps anything between calls keyed on == / hash
# (memoised encoders, interned texts) confuses them
COLLIDING = [True, 1, 1.0, False, 0, 0.0, -0.0, "1", "", None, 2, 2.0, "true", 1e0, -1, -1.0]
SCALAR_RULES = [{"var": ""}, {"===": [{"var": ""}, True]}, {"===": [{"var": ""}, 1]}, {"cat": [{"var": ""}]}, {"!!": [{"var": ""}]}, {"+": [{"var": ""}, 0]}]


def check_scalar_history(stats, calls):
    """a sequence of calls in one interpreter: each must equal what the library gives for its own texts"""
    for rule, data, ser_name, as_rule in calls:
        if as_rule:
            label, _ = check_apply(stats, data, None, "omitted", ser_name, "omitted")   # the scalar itself is the rule
        else:
            label, _ = check_apply(stats, rule, data, "positional", ser_name, "omitted")
    return "scalar history of %d calls" % len(calls), len(calls) >= 2


def check_concat_history(stats, case):
    """pairs of calls whose rule text + data text concatenate to the same characters, split at different points"""
    digits, cuts, mode = case
    text = "".join(str(d) for d in digits)
    seen = 0
    for cut in cuts:
        i = 1 + cut % max(1, len(text) - 1) if len(text) > 1 else 1
        left, right = text[:i], text[i:]
        if mode == "apply":
            if not right or (len(left) > 1 and left[0] == "0") or (len(right) > 1 and right[0] == "0"):
                continue
            check_apply(stats, int(left), int(right), "positional", "omitted", "omitted")
        else:
            dotted = left[:1] + "." + left[1:] if len(left) > 1 and mode == "serialized-dotted" else left
            check_apply_serialized(stats, dotted, right, "positional", "omitted")
        seen += 1
    return "concatenation history of %d calls" % seen, seen >= 2


def tower_twin(x, flavour):
    """the same structure with every bool / small int / integral float leaf replaced by its ==-equal twin"""
    if isinstance(x, bool):
        return [int(x), float(x), x][flavour % 3]
    if isinstance(x, int) and x in (0, 1):
        return [bool(x), float(x), x][flavour % 3]
    if isinstance(x, float) and x in (0.0, 1.0):
        return [bool(x), int(x), -x if x == 0.0 else x][flavour % 3]
    if isinstance(x, list):
        return [tower_twin(e, flavour) for e in x]
    if isinstance(x, dict):
        return {k: tower_twin(v, flavour) for k, v in x.items()}
    return x


TWIN_RULES = [
    {"==": [[1], "1"]}, {"in": [1, [1, 2]]}, {"merge": [[1], [2, [0]]]}, {"cat": [1, [0, 1]]}, {"===": [1, {"var": ""}]}, {"===": [[0], [0]]}, {"!!": [[0]]},
    {"in": [0, {"var": "xs"}]}, {"cat": [{"var": ""}, 1]}, {"if": [0, "zero-truthy", "zero-falsy"]}, {"==": [0, ""]}, {"+": [1, [1]]}, [1, 0, {"k": 1}], {"var": ["nope", 1]},
]


def check_twin_history(stats, case):
    """a rule, then its numeric-tower twins (True / 1 / 1.0, False / 0 / 0.0 / -0.0), in one interpreter"""
    rule, data, flavours = case
    n = 0
    for fl in [None] + list(flavours):
        r = rule if fl is None else tower_twin(rule, fl)
        d = data if fl is None else tower_twin(data, fl + 1)
        check_apply(stats, r, d, "positional", "omitted", "omitted")
        n += 1
    return "twin history of %d calls" % n, n >= 2


def check_mutation_history(stats, case):
    """the same dict / list object passed again after in-place edits: each call sees the current content"""
    kind, edits = case
    if kind == "data":
        obj = {"temp": 20, "items": [1, 2, 3]}
        rule = {"cat": [{"var": "temp"}, "|", {"reduce": [{"var": "items"}, {"+": [{"var": "current"}, {"var": "accumulator"}]}, 0]}, "|", {"var": ["extra", "none"]}]}
        call = lambda: check_apply(stats, rule, obj, "positional", "omitted", "omitted")
    elif kind == "rule-list":
        obj = [1]
        call = lambda: check_apply(stats, obj, None, "omitted", "omitted", "omitted")
    else:
        obj = {"var": "a", "note": 0}
        call = lambda: check_apply(stats, obj, {"a": 1, "b": 2}, "positional", "omitted", "omitted")
    call()
    n = 0
    for e in edits:
        if isinstance(obj, list):
            if e % 3 == 0 and obj:
                obj.pop()
            else:
                obj.append(e)
        elif kind == "data":
            if e % 4 == 0:
                obj["temp"] = e * 10
            elif e % 4 == 1:
                obj["items"].append(e)
            elif e % 4 == 2:
                obj["extra"] = "x%d" % e
            else:
                obj.pop("extra", None)
        else:
            if e % 3 == 0:
                obj.pop("note", None)
            elif e % 3 == 1:
                obj["var"] = "b" if obj.get("var") == "a" else "a"
            else:
                obj["note"] = e
        call()
        n += 1
    return "mutation history (%s) of %d edits" % (kind, n), n >= 1


# ------------------------------------------------------------------------------------------------ process environment

ENV_VALUES = ["1", "true", "0", "strict", "js", "php", "compat", "debug", "off", ""]
ENV_PROBES = [
    ({"!!": ["0"]}, None), ({"!!": [[]]}, None), ({"if": ["0", 1, 2]}, None), ({"==": ["1", 1]}, None), ({"==": [None, 0]}, None), ({"<": ["10", "9"]}, None), ({"+": ["1", "2"]}, None),
    ({"cat": [None, 1.0, [1, [2]], {}]}, None), ({"substr": ["héllo", 1, 2]}, None), ({"in": ["a", "ABC"]}, None), ({"merge": [None, [1]]}, None), ({"var": "a.b.1"}, {"a": {"b": [1, "2"]}}),
    ({"var": ["n", 5]}, {"n": None}), ({"missing": ["a", "x"]}, {"a": 1}), ({"map": [[1, "2"], {"*": [{"var": ""}, 2]}]}, None), ({"filter": [[0, "0", "", " ", []], {"var": ""}]}, None),
    ({"max": ["2", 10]}, None), ({"/": [1, 3]}, None), ({"var": ""}, 1.0), ({"var": ""}, {"k": [True, 1, 1.0, "1"]}), ({"==": [1]}, None), ({"unknown_operator": 1}, None),
]
_ENV_NAMES = None


def env_candidate_names():
    """every ALL-CAPS identifier (3-40 characters) in the wrapper's source and in the extension's bytes: the names a
    program looks up are its own string constants (no word boundary required: Rust constants are packed)"""
    global _ENV_NAMES
    if _ENV_NAMES is None:
        import re
        names = set()
        for f in ("__init__.py", "jsonlogic.so"):
            blob = open(os.path.join(PKG, "jsonlogic_rs", f), "rb").read()
            for m in re.finditer(rb"[A-Z][A-Z0-9_]{2,39}", blob):
                n = m.group(0).decode()
                if n.startswith(("LD_", "MALLOC_", "GLIBC_", "PYTHON")) or n in ("PATH", "RUST_MIN_STACK"):
                    continue
                names.add(n)
                names.add(n.rstrip("_"))
                end = m.end()
                if end < len(blob) and 97 <= blob[end] <= 122 and len(n) >= 4:
                    names.add(n[:-1].rstrip("_"))
        _ENV_NAMES = sorted(x for x in names if len(x) >= 3)[:30000]
    return _ENV_NAMES


def check_environment(stats, c):
    """every probe with the ordinary environment and with every candidate name set (os.environ, hence visible to the
    extension too): both must return exactly what the library (oracle server, started earlier) gives"""
    value = ENV_VALUES[c % len(ENV_VALUES)]
    names = env_candidate_names()
    if not names:
        raise AssertionError("oracle_broken: no candidate environment names")
    wants, plains = [], []
    for rule, data in ENV_PROBES:
        wants.append(expect_from_texts(json.dumps(rule), json.dumps(data), MISSING))
        plains.append(run_call(lambda: jsonlogic_rs.apply(rule, data)))
    saved = dict(os.environ)
    hostiles = []
    try:
        # setenv is linear in the size of the environment: set the thousands of names once per case, not per probe
        for n in names:
            os.environ[n] = value
        os.environ["LANG"] = os.environ["LC_ALL"] = "tr_TR.UTF-8"
        os.environ["TZ"] = "Pacific/Kiritimati"
        for rule, data in ENV_PROBES:
            hostiles.append(run_call(lambda: jsonlogic_rs.apply(rule, data)))
    finally:
        os.environ.clear()
        os.environ.update(saved)
    stats.evals += 2 * len(ENV_PROBES)
    for (rule, data), want, plain, hostile in zip(ENV_PROBES, wants, plains, hostiles):
        judge("apply(%s, %s) in the ordinary environment" % (describe(rule), describe(data)), want, plain)
        judge("apply(%s, %s) with every ALL-CAPS name of the module set to %r" % (describe(rule), describe(data), value), want, hostile)
    return "environment value %r" % value, True


BODIES = {
    "py_twin_history": lambda stats, c: check_twin_history(stats, c),
    "py_concat_history": lambda stats, c: check_concat_history(stats, c),
    "py_mutation_history": lambda stats, c: check_mutation_history(stats, c),
    "py_scalar_history": lambda stats, c: check_scalar_history(stats, c),
    "py_environment": lambda stats, c: check_environment(stats, c),
    "py_apply": lambda stats, c: check_apply(stats, c[0], c[1], c[2], c[3], c[4]),
    "py_apply_serialized": lambda stats, c: check_apply_serialized(stats, c[0], c[1], c[2], c[3]),
    "py_total": lambda stats, c: check_total(stats, c[0], c[1], c[2]),
}

if args.replay_sub:
    # re-execute exactly one saved case (strict), no generation
    stats = Stats()
    RESULT[args.replay_sub] = stats
    case = untag_keys(json.loads(open(args.replay_case_file).read()))
    if isinstance(case, dict) and case.get("import_check"):
        # the import check at the top of this script is the replay; reaching this point means the module is usable
        stats.record(IMPORT_CASE, "import check", True)
        finish(0)
    try:
        label, nt = BODIES[args.replay_sub](stats, case)
        stats.record(describe(case), label, nt)
    except AssertionError as e:
        stats.violations.append({"case_text": describe(case), "msg": "[%s] %s" % (args.pkg, e), "from": "replay"})
    except KeyError:
        stats.violations.append({"case_text": "null", "msg": "oracle_broken: unknown python sub-check " + args.replay_sub, "oracle_broken": True})
    finish(0)

def run_regressions():
    """committed reproductions (regressions/<Cxx>/*.jsonl lines whose sub-check is a python one), replayed first"""
    if not args.regress_file or not os.path.exists(args.regress_file):
        return
    for line in open(args.regress_file):
        line = line.strip()
        if not line or line.startswith("#"):
            continue
        rec = json.loads(line)
        sub = rec.get("sub", "")
        if sub not in BODIES:
            continue
        stats = RESULT.setdefault(sub, Stats())
        case = untag_keys(rec["case"])
        case_text = describe(case)
        mark_current(sub, case_text)
        try:
            label, nt = BODIES[sub](stats, case)
            stats.record(case_text, label, nt)
        except AssertionError as e:
            stats.violations.append({"case_text": case_text, "msg": "[%s] %s" % (args.pkg, e), "from": "regression"})


run_regressions()

if args.prop == "C19":
    n = int((40000 if thorough else 1600) * scale)
    run_sub(
        "py_apply",
        st.tuples(rule_objects_with_bad, values_with_bad, st.sampled_from(["omitted", "positional", "keyword"]), st.sampled_from(sorted(SERIALIZERS)), st.sampled_from(sorted(DESERIALIZERS))),
        lambda stats, c: check_apply(stats, c[0], c[1], c[2], c[3], c[4]),
        n,
    )
    run_sub(
        "py_apply_serialized",
        st.tuples(text_values, text_values, st.sampled_from(["omitted", "positional", "keyword"]), st.sampled_from(sorted(DESERIALIZERS))),
        lambda stats, c: check_apply_serialized(stats, c[0], c[1], c[2], c[3]),
        n,
    )
    run_sub(
        "py_scalar_history",
        st.lists(st.tuples(st.sampled_from(SCALAR_RULES), st.sampled_from(COLLIDING), st.sampled_from(["omitted", "omitted", "json.dumps"]), st.booleans()), min_size=2, max_size=8),
        lambda stats, c: check_scalar_history(stats, c),
        max(200, n // 4),
    )
    run_sub(
        "py_concat_history",
        st.tuples(st.lists(st.integers(0, 9), min_size=2, max_size=6), st.lists(st.integers(0, 5), min_size=2, max_size=4, unique=True), st.sampled_from(["apply", "serialized", "serialized-dotted"])),
        lambda stats, c: check_concat_history(stats, c),
        max(200, n // 4),
    )
    run_sub(
        "py_twin_history",
        st.tuples(st.one_of(st.sampled_from(TWIN_RULES), rules(st.sampled_from([0, 1, True, False, 1.0, 0.0, "1", "0", None]))), st.sampled_from([None, 1, 0, True, 0.0, {"xs": [0, 1]}, [1, 0], {}]), st.lists(st.integers(0, 5), min_size=1, max_size=3)),
        lambda stats, c: check_twin_history(stats, c),
        max(200, n // 4),
    )
    run_sub(
        "py_environment",
        st.integers(0, len(ENV_VALUES) - 1),
        lambda stats, c: check_environment(stats, c),
        24,
    )
    run_sub(
        "py_mutation_history",
        st.tuples(st.sampled_from(["data", "rule-list", "rule-dict"]), st.lists(st.integers(0, 20), min_size=1, max_size=6)),
        lambda stats, c: check_mutation_history(stats, c),
        max(150, n // 8),
    )
elif args.prop == "C01":
    n = int((20000 if thorough else 800) * scale)
    extreme_leaf = st.one_of(scalars, st.sampled_from([-2**63, -2**63 + 1, 2**63 - 1, 2**63, 2**64 - 1, -1e104, 1.7e308, 5e-324, "héllo", "日本語", "a😀b", "-9223372036854775808"]))
    run_sub(
        "py_total",
        st.tuples(st.one_of(rules(extreme_leaf), st.sampled_from(EXTREME_RULES)), st.one_of(json_values(extreme_leaf), st.just([1, 2]), st.just({"a": [1]})), st.sampled_from(["apply", "apply_serialized"])),
        lambda stats, c: check_total(stats, c[0], c[1], c[2]),
        n,
    )
    # every known corner through both entry points, deterministically
    stats = RESULT["py_total"]
    for r, d in DEEP_CASES:
        for entry in ("apply", "apply_serialized"):
            case_text = "deep document: " + describe([r, d, entry])[:120]
            mark_current("py_total", describe([r, d, entry]))
            try:
                label, nt = check_total(stats, r, d, entry)
                stats.record(case_text, label + " (deep document)", True)
            except AssertionError as e:
                if len(stats.violations) < 5:
                    stats.violations.append({"case_text": describe([r, d, entry]), "msg": "[%s] %s" % (args.pkg, e), "from": "enumerated"})
    for r in EXTREME_RULES:
        for d in ([1, 2], {"a": [1]}, "héllo", None):
            for entry in ("apply", "apply_serialized"):
                case_text = describe([r, d, entry])
                mark_current("py_total", case_text)
                try:
                    label, nt = check_total(stats, r, d, entry)
                    stats.record(case_text, label, True)
                except AssertionError as e:
                    if len(stats.violations) < 5:
                        stats.violations.append({"case_text": case_text, "msg": "[%s] %s" % (args.pkg, e), "from": "enumerated"})
else:
    broken("no python leg for " + args.prop)

try:
    server.stdin.close()
    server.wait(timeout=5)
except Exception:
    server.kill()
finish(0)
